"""aysim core: seed derivation, fork-per-run execution, worker pool, outcome classes.

Nothing in this module draws randomness except through the explicit ``random.Random`` objects
it is handed, and nothing here reads a clock for anything but wall-time limits and evidence
(``wall_s``, runs/hour) - never for a decision that influences a simulated run.
"""
import os
import sys
import json
import time
import errno
import select
import signal
import hashlib
import traceback

REPO = os.path.realpath(os.environ.get('AYSIM_REPO', '/repo'))
VERIF = os.path.realpath(os.path.join(os.path.dirname(os.path.abspath(__file__)), '..'))
PKG_PREFIX = os.path.join(REPO, 'awesomeyaml') + os.sep

_bootstrapped = False


class HarnessError(Exception):
    """Raised for defects of the simulator/oracle itself - never reported as a violation."""


def bootstrap():
    """Import awesomeyaml from REPO's working tree and pre-import everything it imports lazily.

    Pre-importing matters twice: every forked run starts from the same process state, and no
    simulated thread can ever be parked by the scheduler while it holds a module import lock.
    """
    global _bootstrapped
    if _bootstrapped:
        return
    sys.dont_write_bytecode = True
    if sys.path[0] != REPO:
        sys.path.insert(0, REPO)
    if 'awesomeyaml' in sys.modules and not _bootstrapped:
        raise HarnessError('awesomeyaml imported before aysim.core.bootstrap()')
    import importlib
    ay = importlib.import_module('awesomeyaml')
    f = os.path.realpath(sys.modules['awesomeyaml.builder'].__file__)
    if not f.startswith(PKG_PREFIX):
        raise HarnessError(f'awesomeyaml imported from {f}, expected under {PKG_PREFIX}')
    nodes_dir = os.path.join(REPO, 'awesomeyaml', 'nodes')
    for fn in sorted(os.listdir(nodes_dir)):
        if fn.endswith('.py') and fn != '__init__.py':
            importlib.import_module('awesomeyaml.nodes.' + fn[:-3])
    for fn in sorted(os.listdir(os.path.join(REPO, 'awesomeyaml'))):
        if fn.endswith('.py') and fn not in ('__init__.py',):
            try:
                importlib.import_module('awesomeyaml.' + fn[:-3])
            except Exception:  # version.py may want git; not needed
                pass
    # stdlib modules the library (or PyYAML / pickle / copy on its behalf) imports lazily
    import inspect, traceback as _tb, tokenize, token, pickle, copy, functools, pathlib  # noqa
    import importlib.util, builtins, types, dis, hashlib as _h, io, re, collections.abc  # noqa
    import encodings.utf_8, encodings.ascii, encodings.latin_1  # noqa
    import yaml  # noqa
    _bootstrapped = True
    from . import sched
    sched.preinstrument()
    return ay


# ---------------------------------------------------------------------------------------------
# seeds

def derive_seed(master, *parts):
    h = hashlib.blake2b(digest_size=8)
    h.update(repr((int(master),) + tuple(parts)).encode())
    return int.from_bytes(h.digest(), 'big')


def digest(obj):
    """Address-free stable digest of a JSON-able object."""
    s = json.dumps(obj, sort_keys=True, default=repr, separators=(',', ':'))
    return hashlib.blake2b(s.encode(), digest_size=10).hexdigest()


# ---------------------------------------------------------------------------------------------
# fork-per-run

_child_fd = None


def journal(obj):
    """Called inside a forked run: write a record to the parent *now* (survives a crash/hang)."""
    if _child_fd is None:
        return
    data = (json.dumps({'j': obj}, default=repr) + '\n').encode()
    _write_all(_child_fd, data)


def _write_all(fd, data):
    mv = memoryview(data)
    while mv:
        try:
            n = os.write(fd, mv)
        except InterruptedError:
            continue
        mv = mv[n:]


def fork_call(fn, args=(), timeout=30.0):
    """Run ``fn(*args)`` in a forked child; return a dict:

    ``{'status': 'ok', 'value': ...}``               fn returned (value is JSON round-tripped)
    ``{'status': 'error', 'error': traceback}``      fn raised (a harness defect unless the caller expects it)
    ``{'status': 'crash', 'signal': n}``             child killed by a signal (e.g. SIGSEGV)
    ``{'status': 'timeout'}``                        wall limit exceeded, child killed
    plus ``'journal': [...]`` - records the child wrote with :func:`journal` before it ended.
    """
    global _child_fd
    sys.stdout.flush()
    sys.stderr.flush()
    r, w = os.pipe()
    pid = os.fork()
    if pid == 0:
        code = 0
        try:
            os.close(r)
            _child_fd = w
            try:
                res = fn(*args)
                data = json.dumps({'r': res}, default=repr)
            except BaseException:
                data = json.dumps({'e': traceback.format_exc()})
            _write_all(w, (data + '\n').encode())
        except BaseException:
            code = 3
        finally:
            os._exit(code)
    os.close(w)
    buf = bytearray()
    deadline = time.monotonic() + timeout
    timed_out = False
    while True:
        left = deadline - time.monotonic()
        if left <= 0:
            timed_out = True
            break
        try:
            rl, _, _ = select.select([r], [], [], min(left, 1.0))
        except InterruptedError:
            continue
        if rl:
            chunk = os.read(r, 1 << 16)
            if not chunk:
                break
            buf += chunk
    os.close(r)
    if timed_out:
        try:
            os.kill(pid, signal.SIGKILL)
        except ProcessLookupError:
            pass
    _, status = os.waitpid(pid, 0)
    out = {'journal': []}
    result = None
    for line in bytes(buf).split(b'\n'):
        if not line:
            continue
        try:
            rec = json.loads(line)
        except ValueError:
            continue
        if 'j' in rec:
            out['journal'].append(rec['j'])
        else:
            result = rec
    if timed_out:
        out['status'] = 'timeout'
    elif os.WIFSIGNALED(status):
        out['status'] = 'crash'
        out['signal'] = os.WTERMSIG(status)
    elif result is None:
        out['status'] = 'error'
        out['error'] = f'child exited with status {status} without a result'
    elif 'e' in result:
        out['status'] = 'error'
        out['error'] = result['e']
    else:
        out['status'] = 'ok'
        out['value'] = result['r']
    return out


# ---------------------------------------------------------------------------------------------
# run results

def ok_result(**kw):
    r = {'violations': [], 'stats': {}, 'keys': [], 'sample': None, 'harness': None}
    r.update(kw)
    return r


def violation(rule, msg, **features):
    """A violation record. ``rule`` names the oracle clause; ``features`` are simple values the
    known-findings predicates can match on (so that a *different* failure of the same rule is
    still reported)."""
    return {'rule': rule, 'msg': msg, 'features': {k: _simple(v) for k, v in features.items()}}


def _simple(v):
    if isinstance(v, (str, int, bool)) or v is None:
        return v
    return repr(v)


def merge_stats(into, other):
    for k, v in other.items():
        if isinstance(v, dict):
            merge_stats(into.setdefault(k, {}), v)
        elif isinstance(v, (int, float)) and str(k).startswith('max_'):
            into[k] = max(into.get(k, 0), v)
        elif isinstance(v, (int, float)):
            into[k] = into.get(k, 0) + v
        else:
            into.setdefault(k, v)
    return into


# ---------------------------------------------------------------------------------------------
# worker pool: one task = a chunk of run indices; the worker never builds a config itself,
# every simulated execution happens in a child forked from it (prop.execute does the forking).

def _chunk_task(prop_name, tier, master, indices):
    from . import props
    prop = props.load(prop_name)
    import random
    out = []
    for i in indices:
        seed = derive_seed(master, prop_name, i)
        t0 = time.monotonic()
        try:
            scenario = prop.generate(random.Random(seed), tier, i)
            scenario['seed'] = seed
            res = prop.execute(scenario)
        except HarnessError as e:
            res = ok_result(harness=f'HarnessError: {e}')
            scenario = None
        except Exception:
            res = ok_result(harness=traceback.format_exc())
            scenario = None
        res['seed'] = seed
        res['index'] = i
        res['wall'] = time.monotonic() - t0
        if res['violations'] or res.get('harness'):
            res['scenario'] = scenario
        out.append(res)
    return out


def run_digest(r, prop=None):
    """Digest of everything a run reports (verdict, counters incl. traced steps / switches / faults, non-triviality keys).
    A property module may narrow this with det_view(result) where a component outside the simulator's control
    (Hypothesis' wall-clock-bounded shrinker) decides how much work a *violating* run does."""
    if prop is not None and hasattr(prop, 'det_view'):
        return digest(prop.det_view(r))
    return digest({'violations': r['violations'], 'stats': r['stats'], 'keys': r['keys'], 'harness': bool(r.get('harness'))})


def rerun(prop_name, tier, master, indices, workers):
    """Execute the given run indices again (fresh worker processes); used by the in-check determinism sample."""
    import multiprocessing as mp
    from concurrent.futures import ProcessPoolExecutor
    bootstrap()
    out = {}
    with ProcessPoolExecutor(max_workers=max(1, min(workers, len(indices))), mp_context=mp.get_context('fork')) as ex:
        for res in ex.map(_chunk_task, [prop_name] * len(indices), [tier] * len(indices), [master] * len(indices), [[i] for i in indices]):
            from . import props
            for r in res:
                out[r['index']] = run_digest(r, props.load(prop_name))
    return out


def sweep(prop_name, tier, master, n_runs, workers, wall_cap, chunk=4, on_result=None):
    """Run ``n_runs`` simulated runs on ``workers`` processes; stop submitting after ``wall_cap`` s."""
    import multiprocessing as mp
    from concurrent.futures import ProcessPoolExecutor, wait, FIRST_COMPLETED
    bootstrap()
    t0 = time.monotonic()
    results = []
    ctx = mp.get_context('fork')
    idx = 0
    pending = set()
    capped = False
    with ProcessPoolExecutor(max_workers=workers, mp_context=ctx) as ex:
        while True:
            while len(pending) < workers * 2 and idx < n_runs and not capped:
                ids = list(range(idx, min(n_runs, idx + chunk)))
                idx += len(ids)
                pending.add(ex.submit(_chunk_task, prop_name, tier, master, ids))
            if not pending:
                break
            done, pending = wait(pending, timeout=5.0, return_when=FIRST_COMPLETED)
            for fut in done:
                for res in fut.result():
                    results.append(res)
                    if on_result:
                        on_result(res)
            if time.monotonic() - t0 > wall_cap:
                capped = True
    results.sort(key=lambda r: r['index'])
    return results, time.monotonic() - t0, capped
