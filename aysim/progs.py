"""Seeded generator of Python programs for !eval / f-string nodes (C12).

A program is a list of source lines; all but the last are statements, the last one is a single-line
top-level expression.  Programs are deterministic, side-effect free with respect to the config,
terminate quickly and contain no ';' (the node splits lines on it naively; the statement is silent).
Free names are taken from an environment {name: kind} with kinds
  int float str bool list map fun1 cm
where fun1 is a one-argument int function and cm a context-manager factory cm(n) yielding n.
"""

BUILTIN_FUNS = ['len', 'max', 'min', 'sum', 'abs', 'sorted', 'str', 'int']


class ProgGen:
    def __init__(self, r, env, p_error=0.12):
        self.r = r
        self.env = dict(env)          # free names visible to the program (config + symbols)
        self.locals = {}              # names the program defined itself: name -> kind
        self.n = 0
        self.p_error = p_error
        self.lines = []
        self.features = set()

    # -- names
    def fresh(self, stem):
        self.n += 1
        return f'{stem}{self.n}'

    def names(self, kind, local_ok=True):
        out = [n for n, k in self.env.items() if k == kind]
        if local_ok:
            out += [n for n, k in self.locals.items() if k == kind]
        return out

    # -- expressions
    def int_atom(self, extra=()):
        r = self.r
        cands = self.names('int') + list(extra)
        c = r.random()
        if cands and c < 0.6:
            return r.choice(cands)
        if c < 0.7 and self.names('list'):
            return f'{r.choice(self.names("list"))}[{r.randrange(0, 2)}]'
        if c < 0.78 and self.names('map'):
            mname = r.choice(self.names('map'))
            return r.choice([f"{mname}['x']", f'{mname}.x'])
        if c < 0.84 and self.names('fun1'):
            return f'{r.choice(self.names("fun1"))}({r.randrange(1, 5)})'
        if c < 0.88 and self.names('bool'):
            return f'int({r.choice(self.names("bool"))})'
        return str(r.randrange(0, 12))

    def int_expr(self, depth=0, extra=()):
        r = self.r
        if depth >= 2 or r.random() < 0.35:
            return self.int_atom(extra)
        c = r.randrange(9)
        a = self.int_expr(depth + 1, extra)
        b = self.int_expr(depth + 1, extra)
        if c == 0:
            return f'({a} + {b})'
        if c == 1:
            return f'({a} - {b})'
        if c == 2:
            return f'({a} * {b})'
        if c == 3:
            return f'({a} if {self.bool_expr(depth + 1, extra)} else {b})'
        if c == 4:
            return f'max({a}, {b})'
        if c == 5:
            self.features.add('builtin_call')
            lst = self.list_expr(depth + 1, extra)
            return f'len({lst})'
        if c == 6:
            return f'({a} % {1 + r.randrange(1, 7)})'
        if c == 7:
            return f'(lambda q_: q_ + {a})({b})'
        return f'sum([{a}, {b}])'

    def bool_expr(self, depth=0, extra=()):
        r = self.r
        c = r.randrange(6)
        a = self.int_expr(depth + 1, extra)
        b = self.int_expr(depth + 1, extra)
        if c == 0:
            return f'{a} < {b}'
        if c == 1:
            return f'{a} == {b}'
        if c == 2 and self.names('bool'):
            return f'(not {r.choice(self.names("bool"))})'
        if c == 3:
            return f'({a} > {b} and {a} != 3)'
        if c == 4:
            return f'({a} >= {b} or {b} < 2)'
        return f'{a} != {b}'

    def list_expr(self, depth=0, extra=()):
        r = self.r
        cands = self.names('list')
        c = r.random()
        if cands and c < 0.5:
            return r.choice(cands)
        if c < 0.7:
            self.features.add('comprehension')
            v = self.fresh('i_')
            return f'[{self.int_expr(depth + 1, extra + (v,))} for {v} in range({r.randrange(1, 5)})]'
        if c < 0.8 and cands:
            self.features.add('comprehension')
            v = self.fresh('i_')
            return f'[{v} * {self.int_atom(extra)} for {v} in {r.choice(cands)} if {v} != {r.randrange(0, 4)}]'
        return '[' + ', '.join(self.int_expr(depth + 1, extra) for _ in range(r.randrange(0, 4))) + ']'

    def str_expr(self, extra=()):
        r = self.r
        cands = self.names('str')
        c = r.random()
        if cands and c < 0.5:
            return r.choice(cands)
        if c < 0.8:
            return f'str({self.int_expr(1, extra)})'
        return repr(r.choice(['x', 'py', 'a b']))

    def failing_expr(self):
        r = self.r
        self.features.add('error')
        c = r.randrange(6)
        a = self.int_atom()
        if c == 0:
            return f'({a} // ({a} - {a}))', 'ZeroDivisionError'
        if c == 1:
            return f'[1, 2][{5 + r.randrange(3)}]', 'IndexError'
        if c == 2:
            return "{'k': 1}['missing']", 'KeyError'
        if c == 3:
            return f'undefined_name_{r.randrange(9)} + 1', 'NameError'
        if c == 4:
            return f"({a} + 'text')", 'TypeError'
        return f"int('not a number {r.randrange(9)}')", 'ValueError'

    # -- statements
    def stmt(self):
        r = self.r
        c = r.randrange(19)
        L = self.lines
        if c == 0:
            v = self.fresh('v')
            L.append(f'{v} = {self.int_expr()}')
            self.locals[v] = 'int'
            self.features.add('assign')
        elif c == 1 and self.names('int', True) and self.locals:
            ints = [n for n, k in self.locals.items() if k == 'int']
            if ints:
                L.append(f'{r.choice(ints)} += {self.int_expr(1)}')
                self.features.add('augassign')
        elif c == 2:
            f = self.fresh('f')
            p, q = self.fresh('p_'), self.fresh('q_')
            L.append(f'def {f}({p}, {q}={self.int_expr(1)}):')
            t = self.fresh('t_')
            L.append(f'    {t} = {p} * {q} + {self.int_expr(1, (p, q))}')
            if r.random() < 0.4:
                L.append(f'    if {self.bool_expr(1, (p, q, t))}:')
                L.append(f'        return {t} - 1')
            L.append(f'    return {t}')
            self.locals[f] = 'fun1'
            self.features.add('def')
        elif c == 3:
            g = self.fresh('g')
            z = self.fresh('z_')
            L.append(f'{g} = lambda {z}: {self.int_expr(1, (z,))}')
            self.locals[g] = 'fun1'
            self.features.add('lambda')
        elif c == 4:
            v = self.fresh('l')
            L.append(f'{v} = {self.list_expr()}')
            self.locals[v] = 'list'
        elif c == 5:
            v = self.fresh('v')
            L.append(f'if {self.bool_expr()}:')
            L.append(f'    {v} = {self.int_expr(1)}')
            if r.random() < 0.5:
                L.append(f'elif {self.bool_expr()}:')
                L.append(f'    {v} = {self.int_expr(1)}')
            L.append('else:')
            L.append(f'    {v} = {self.int_expr(1)}')
            self.locals[v] = 'int'
            self.features.add('if')
        elif c == 6:
            v = self.fresh('v')
            i = self.fresh('i_')
            L.append(f'{v} = 0')
            L.append(f'for {i} in range({r.randrange(1, 7)}):')
            if r.random() < 0.5:
                L.append(f'    if {i} == {r.randrange(0, 5)}:')
                L.append(f'        {r.choice(["continue", "break"])}')
                self.features.add('break_continue')
            L.append(f'    {v} = {v} + {self.int_expr(1, (i,))}')
            self.locals[v] = 'int'
            self.features.add('for')
        elif c == 7:
            v = self.fresh('v')
            n = self.fresh('n_')
            L.append(f'{v} = 0')
            L.append(f'{n} = {r.randrange(1, 6)}')
            L.append(f'while {n} > 0:')
            L.append(f'    {n} -= 1')
            L.append(f'    {v} += {self.int_expr(1, (n,))}')
            if r.random() < 0.3:
                L.append(f'    if {v} > {r.randrange(5, 40)}:')
                L.append('        break')
            self.locals[v] = 'int'
            self.locals[n] = 'int'
            self.features.add('while')
        elif c == 8:
            v = self.fresh('v')
            w = self.fresh('v')
            if r.random() < 0.6:
                expr, exc = self.failing_expr()
                self.features.discard('error')
            else:
                expr, exc = self.int_expr(1), r.choice(['ZeroDivisionError', 'KeyError'])
            L.append('try:')
            L.append(f'    {v} = {expr}')
            L.append(f'except {exc}:')
            L.append(f'    {v} = -{r.randrange(1, 9)}')
            if r.random() < 0.5:
                L.append('finally:')
                L.append(f'    {w} = {self.int_expr(1)}')
                self.locals[w] = 'int'
            self.locals[v] = 'int'
            self.features.add('try')
        elif c == 9 and self.names('cm'):
            v = self.fresh('v')
            h = self.fresh('h_')
            L.append(f'with {r.choice(self.names("cm"))}({self.int_expr(1)}) as {h}:')
            L.append(f'    {v} = {h} + {self.int_expr(1, (h,))}')
            self.locals[v] = 'int'
            self.features.add('with')
        elif c == 10:
            v = self.fresh('v')
            how = r.randrange(3)
            if how == 0:
                L.append('import math')
                L.append(f'{v} = math.floor({self.int_expr(1)} + 0.5)')
            elif how == 1:
                L.append('from functools import reduce')
                L.append(f'{v} = reduce(lambda a_, b_: a_ + b_, {self.list_expr(1)}, {self.int_atom()})')
            else:
                L.append('import math as mm_')
                L.append(f'{v} = mm_.gcd({self.int_expr(1)}, 12)')
            self.locals[v] = 'int'
            self.features.add('import')
        elif c == 11:
            # closure over a free name and a local
            f = self.fresh('f')
            a = self.fresh('a_')
            L.append(f'def {f}({a}):')
            inner = self.fresh('in_')
            b = self.fresh('b_')
            L.append(f'    def {inner}({b}):')
            L.append(f'        return {a} + {b} + {self.int_expr(1, (a, b))}')
            L.append(f'    return {inner}({self.int_expr(1, (a,))})')
            self.locals[f] = 'fun1'
            self.features.add('closure')
        elif c == 12:
            ints = [n for n, k in self.locals.items() if k == 'int' and not n.endswith('_')]
            if ints:
                f = self.fresh('bump')
                tgt = r.choice(ints)
                L.append(f'def {f}():')
                L.append(f'    global {tgt}')
                L.append(f'    {tgt} = {tgt} + {self.int_expr(1)}')
                L.append(f'{f}()')
                self.features.add('global_stmt')
        elif c == 13:
            v = self.fresh('d')
            k = self.fresh('k_')
            L.append(f'{v} = {{{k}: {self.int_expr(1, (k,))} for {k} in range({r.randrange(1, 4)})}}')
            w = self.fresh('v')
            L.append(f'{w} = sum({v}.values()) + sum({k} for {k} in sorted({v}))')
            self.locals[w] = 'int'
            self.features.add('comprehension')
        elif c == 14:
            # many names / constants: needs EXTENDED_ARG in the compiled code
            base = self.fresh('big')
            n = r.choice([270, 300])
            for i in range(n):
                L.append(f'{base}_{i} = {1000 + i}')
            v = self.fresh('v')
            L.append(f'{v} = {base}_{n - 1} - {base}_{n - 2} + {self.int_expr(1)} + {base}_{r.randrange(n)} - {base}_{r.randrange(n)}')
            self.locals[v] = 'int'
            self.features.add('extended_arg')
        elif c == 18:
            # a string literal spanning several lines, one of them empty (the node splits its code into lines)
            v = self.fresh('s')
            q = r.choice(["'''", '"""'])
            L.append(f'{v} = {q}first {self.n}')
            L.append('')
            L.append(f'  second{q}')
            w = self.fresh('v')
            L.append(f'{w} = len({v}) + {v}.count(chr(10))')
            self.locals[v] = 'str'
            self.locals[w] = 'int'
            self.features.add('multiline_literal')
        elif c == 16:
            # annotations are evaluated (not stored as text) unless the code itself asks otherwise
            f = self.fresh('fa')
            p = self.fresh('p_')
            L.append(f'def {f}({p}: int, q_: "str" = "x") -> int:')
            L.append(f'    return {p} + {self.int_expr(1, (p,))}')
            v = self.fresh('v')
            L.append(f"{v} = int({f}.__annotations__['{p}'] is int) + len({f}.__annotations__['return'].__name__) + {f}({self.int_atom()})")
            self.locals[v] = 'int'
            self.locals[f] = 'fun1'
            self.features.add('annotations')
        elif c == 17:
            v = self.fresh('va')
            L.append(f'{v}: int = {self.int_expr(1)}')
            w = self.fresh('v')
            L.append(f"{w} = {v} + int(__annotations__['{v}'] is int)")
            self.locals[v] = 'int'
            self.locals[w] = 'int'
            self.features.add('annotations')
        else:
            v = self.fresh('s')
            L.append(f'{v} = {self.str_expr()} + {repr("_")} + {self.str_expr()}')
            self.locals[v] = 'str'

    def final_expr(self):
        r = self.r
        parts = []
        for _ in range(r.randrange(1, 4)):
            c = r.randrange(5)
            if c == 0:
                parts.append(self.int_expr())
            elif c == 1:
                parts.append(self.list_expr())
            elif c == 2:
                parts.append(self.str_expr())
            elif c == 3:
                parts.append(self.bool_expr())
            else:
                fs = self.names('fun1')
                parts.append(f'{r.choice(fs)}({self.int_expr(1)})' if fs else self.int_expr())
        if r.random() < self.p_error:
            expr, _ = self.failing_expr()
            parts.append(expr)
        if len(parts) == 1:
            return parts[0]
        return '[' + ', '.join(parts) + ']'

    def program(self, max_stmts=5):
        r = self.r
        for _ in range(r.randrange(0, max_stmts + 1)):
            if r.random() < self.p_error / 3:
                v = self.fresh('v')
                expr, _ = self.failing_expr()
                self.lines.append(f'{v} = {expr}')
                self.locals[v] = 'int'
            else:
                self.stmt()
        self.lines.append(self.final_expr())
        return list(self.lines)

    def fstring(self):
        r = self.r
        pieces = []
        for _ in range(r.randrange(1, 4)):
            c = r.randrange(5)
            if c == 0:
                pieces.append('{' + self.int_expr(1) + '}')
            elif c == 1 and self.names('str'):
                pieces.append('{' + r.choice(self.names('str')) + '}')
            elif c == 2:
                pieces.append('{' + self.int_atom() + ':>4}')
            elif c == 3:
                pieces.append('{' + self.int_atom() + '!r}')
            else:
                pieces.append(r.choice(['_', 'v=', '-', 'x']))
        body = ''.join(pieces)
        if r.random() < self.p_error:
            body += '{undefined_fname_' + str(r.randrange(5)) + '}'
            self.features.add('error')
        return body
