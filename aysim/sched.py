"""Deterministic thread scheduler and step clock.

Client programs run in real ``threading.Thread``s, but only the holder of the baton runs; every
other client is parked on its own semaphore.  Pre-emption points are ``sys.monitoring`` LINE
events of code objects under <repo>/awesomeyaml (every other code object is switched off with
DISABLE after its first event), INSTRUCTION events in the listed critical functions, and
explicit points raised by the simulated seams.  Which thread runs next is decided only by the
run's ``random.Random`` (or by an explicit schedule when replaying); nothing here reads a clock.

The count of LINE events is the simulated clock used for bounded liveness (see ``begin_op``).
"""
import os
import sys
import random
import threading

from . import core

mon = sys.monitoring
TOOL = 4
EV = mon.events

LINE, INSTR, EXT = 'L', 'I', 'X'

CURRENT = None   # the scheduler of this (forked) run

# functions that touch state shared between threads / calls (DESIGN section 1(A))
CRITICAL = {
    ('nodes/node.py', 'ConfigNode.default_filename'): 'default_filename',
    ('nodes/node.py', 'ConfigNode.default_safe_flag'): 'default_safe_flag',
    ('nodes/node.py', 'ConfigNode.__init__'): 'node_init',
    ('errors.py', 'api_entry.<locals>.impl'): 'api_entry',
    ('errors.py', 'rethrow_point'): 'rethrow_point',
    ('builder.py', 'Builder.add_source'): 'add_source',
    ('builder.py', 'Builder.current_stage'): 'current_stage',
    ('nodes/scalar.py', 'ConfigScalarMeta.__call__'): 'scalar_types',
    ('nodes/eval.py', 'EvalNode.on_evaluate_impl'): 'eval_node',
    ('yaml.py', 'global_ctx'): 'global_ctx',
    ('yaml.py', 'AwesomeyamlLoader._convert'): 'loader_convert',
}


REPO_CODES = []      # every code object of awesomeyaml, collected once per process tree (see preinstrument)


def _walk_code(code, out, seen):
    import types
    if code in seen:
        return
    seen.add(code)
    out.append(code)
    for c in code.co_consts:
        if isinstance(c, types.CodeType):
            _walk_code(c, out, seen)


def preinstrument():
    """Called once after awesomeyaml was imported (in the process all runs are forked from): LINE events are
    switched on *locally* for every code object of the library and nowhere else, so code outside the library
    (PyYAML, stdlib, Hypothesis, evaluated user code, the harness) never produces an event. No callback is
    registered here: until a Scheduler installs one, events are dropped by the interpreter."""
    import gc
    import types
    if REPO_CODES:
        return
    seen = set()
    for o in gc.get_objects():
        if isinstance(o, types.FunctionType):
            c = o.__code__
            if c.co_filename.startswith(core.PKG_PREFIX):
                _walk_code(c, REPO_CODES, seen)
    if mon.get_tool(TOOL) is None:
        mon.use_tool_id(TOOL, 'aysim')
    for c in REPO_CODES:
        mon.set_local_events(TOOL, c, EV.LINE)


class SimTimeout(BaseException):
    """Raised inside library code when an operation exceeds its step budget (bounded liveness)."""


class _T:
    __slots__ = ('idx', 'sem', 'done', 'lines', 'op_lines', 'budget', 'next_alarm', 'overruns',
                 'fn', 'error', 'prio', 'regions', 'thread', 'op_label')

    def __init__(self, idx, fn):
        self.idx = idx
        self.fn = fn
        self.sem = threading.Semaphore(0)
        self.done = False
        self.lines = 0
        self.op_lines = 0
        self.budget = None
        self.next_alarm = None
        self.overruns = 0
        self.error = None
        self.prio = 0
        self.regions = ()
        self.thread = None
        self.op_label = None


def _critical_name(code):
    fn = code.co_filename
    if not fn.startswith(core.PKG_PREFIX):
        return None
    return CRITICAL.get((fn[len(core.PKG_PREFIX):], code.co_qualname))


class Scheduler:
    """``spec`` (JSON-able) selects the policy:

    {'policy': 'serial'}                                   no pre-emption, threads in index order
    {'policy': 'uniform', 'p': 0.01, 'seed': n}            switch with prob. p at any point
    {'policy': 'crit', 'q': 0.3, 'p': 0.001, 'seed': n}    prob. q at points inside critical functions, p elsewhere
    {'policy': 'pct', 'd': 3, 'span': 40000, 'seed': n}    PCT: random priorities, d-1 priority change points
        optional 'focus_cps': [n1, n2..]: additional change points at the n-th point inside focus functions
    optional 'focus': [names of CRITICAL functions]: opcode events (and crit/pct focus points) only there
    {'policy': 'explicit', 'switches': [[gstep, to], ..]}  replay of a recorded schedule
    optional for the random policies: 'ext_p' (extra pre-emption at external points), 'novel_p' (extra pre-emption at a line that
    runs for the first time in the process - where lazily initialised, process-wide state is written)
    """

    def __init__(self, spec, opcodes=True, record_where=True):
        self.spec = spec
        self.policy = spec.get('policy', 'serial')
        self.rng = random.Random(spec.get('seed', 0))
        self.opcodes = opcodes and spec.get('opcodes', True)
        self.threads = []
        self.cur = None
        self.gstep = 0
        self.switches = []        # [gstep, from, to, where]
        self.overlaps = {}        # "region|function" -> count
        self.divergence = 0
        self.harness_error = None
        self._by_ident = {}
        self._all_done = threading.Semaphore(0)
        self._crit_codes = {}
        self._next_switch = None
        self._change_points = []
        self._explicit = [tuple(x) for x in spec.get('switches', [])]
        self._exp_i = 0
        self._parked_regions = 0
        f = spec.get('focus')
        self._focus = set(f) if f is not None else None
        self._ext_p = spec.get('ext_p', 0)
        # extra pre-emption where a line runs for the first time in this process: lazily initialised state is written there
        self._novel_p = spec.get('novel_p', 0) if self.policy not in ('serial', 'explicit') else 0
        self._seen_lines = set()
        self.novel_switches = 0
        self._focus_cps = sorted(spec.get('focus_cps', []))
        self._focus_n = 0
        self.liveness = []        # records of step-budget overruns
        self.record_where = record_where
        # ambient perturbation (DESIGN 3.5): junk allocation / garbage collection at a seeded subset of points
        pt = spec.get('perturb')
        self._perturb = pt
        self._perturb_rng = random.Random(pt.get('seed', 0)) if pt else None
        self._perturb_next = self._perturb_rng.randrange(1, pt.get('every', 200)) if pt else None
        self._junk = []
        self.perturbations = 0

    # ---- set-up ---------------------------------------------------------------------------
    def _collect_critical(self):
        import types
        seen = set()

        def walk(code):
            if code in seen:
                return
            seen.add(code)
            name = _critical_name(code)
            if name:
                self._crit_codes[code] = name
            for c in code.co_consts:
                if isinstance(c, types.CodeType):
                    walk(c)

        for mname, mod in list(sys.modules.items()):
            if not (mname == 'awesomeyaml' or mname.startswith('awesomeyaml.')):
                continue
            d = getattr(mod, '__dict__', None)
            if d is None:
                d = getattr(getattr(mod, 'module', None), '__dict__', {})
            stack = list(d.values())
            visited = set()
            while stack:
                o = stack.pop()
                if id(o) in visited:
                    continue
                visited.add(id(o))
                f = getattr(o, '__func__', o)
                w = getattr(f, '__wrapped__', None)
                if w is not None:
                    stack.append(w)
                c = getattr(f, '__code__', None)
                if isinstance(c, types.CodeType) and c.co_filename.startswith(core.PKG_PREFIX):
                    walk(c)
                    for cell in (getattr(f, '__closure__', None) or ()):
                        try:
                            stack.append(cell.cell_contents)
                        except ValueError:
                            pass
                if isinstance(o, type) and getattr(o, '__module__', '').startswith('awesomeyaml'):
                    stack.extend(vars(o).values())
                    ns = getattr(o, '_names', None)
                if isinstance(o, (staticmethod, classmethod, property)):
                    for a in ('__func__', 'fget', 'fset', 'fdel'):
                        x = getattr(o, a, None)
                        if x is not None:
                            stack.append(x)
                names = getattr(o, '_names', None)   # awesomeyaml Namespace objects
                if isinstance(names, dict):
                    stack.extend(names.values())

    def _install(self):
        global CURRENT
        CURRENT = self
        self._collect_critical()
        preinstrument()
        self._fast = self._fast_line_callback()
        mon.register_callback(TOOL, EV.LINE, self._idle_callback if self._fast else self._on_line)
        self._instr_codes = []
        if self.opcodes:
            mon.register_callback(TOOL, EV.INSTRUCTION, self._on_instr)
            focus = self.spec.get('focus')
            for code, name in self._crit_codes.items():
                if focus is None or name in focus:
                    mon.set_local_events(TOOL, code, EV.LINE | EV.INSTRUCTION)
                    self._instr_codes.append(code)

    def _uninstall(self):
        global CURRENT
        for code in self._instr_codes:
            try:
                mon.set_local_events(TOOL, code, EV.LINE)
            except Exception:
                pass
        mon.register_callback(TOOL, EV.LINE, None)
        mon.register_callback(TOOL, EV.INSTRUCTION, None)
        CURRENT = None

    # ---- callbacks ------------------------------------------------------------------------
    def _on_line(self, code, line):
        self._point(LINE, code, line)

    import operator
    _idle_callback = staticmethod(operator.is_)      # C-level no-op taking (code, line): used between operations

    def _fast_line_callback(self):
        """Single client, no pre-emption, no perturbation: the scheduler is only a step clock. Lines outside
        begin_op/end_op cost one cheap callback (oracle code that walks the tree through the library is not timed)."""
        if self.policy != 'serial' or len(self.threads) != 1 or self._perturb or self.opcodes:
            return None
        st = self.threads[0]
        overrun = self._overrun

        def on_line(code, line):
            st.lines += 1
            st.op_lines += 1
            if st.next_alarm is not None and st.op_lines > st.next_alarm:
                self.gstep = st.lines
                overrun(st, code, line)
        return on_line

    def _on_instr(self, code, offset):
        self._point(INSTR, code, offset)

    def external(self, tag):
        """A pre-emption point raised by a simulated seam (file system, recorder)."""
        self._point(EXT, None, tag)

    def is_client_thread(self):
        st = self.cur
        return st is not None and st.thread is threading.current_thread()

    def yield_blocked(self, tag):
        """The running client cannot proceed (a simulated lock is held by a parked client): hand the baton to another
        runnable client, chosen by the policy's generator (or the recorded schedule). The caller retries afterwards."""
        st = self.cur
        if st is None or st.thread is not threading.current_thread():
            return False
        others = self._runnable_others(st)
        if not others:
            raise core.HarnessError(f'simulated deadlock: client {st.idx} blocked on {tag} and nobody else can run')
        self.gstep += 1
        target = None
        if self.policy == 'explicit':
            if self._exp_i < len(self._explicit) and self._explicit[self._exp_i][0] == self.gstep:
                g, to = self._explicit[self._exp_i]
                self._exp_i += 1
                if to < len(self.threads) and not self.threads[to].done and self.threads[to] is not st:
                    target = self.threads[to]
            if target is None:
                self.divergence += 1
        if target is None:
            target = others[self.rng.randrange(len(others))] if self.policy != 'serial' else others[0]
        self._switch(st, target, EXT, None, 'blocked:' + tag)
        return True

    def _point(self, kind, code, pos):
        st = self.cur
        if st is None or st.thread is not threading.current_thread():
            return
        self.gstep += 1
        if kind == LINE:
            st.lines += 1
            st.op_lines += 1
            if st.next_alarm is not None and st.op_lines > st.next_alarm:
                self._overrun(st, code, pos)
        if self._perturb_next is not None and self.gstep >= self._perturb_next:
            self._do_perturb()
        cname = self._crit_codes.get(code) if code is not None else None
        if cname is not None and self._parked_regions:
            for other in self.threads:
                if other is not st and not other.done:
                    for reg in other.regions:
                        k = reg + '|' + cname
                        self.overlaps[k] = self.overlaps.get(k, 0) + 1
        target = None
        if kind == EXT and self._ext_p and self.policy not in ('serial', 'explicit'):
            # simulated I/O, recorder calls and module top-level code are where real systems block: pre-empt there more often
            if self.rng.random() < self._ext_p:
                others = self._runnable_others(st)
                if others:
                    target = others[self.rng.randrange(len(others))]
        if target is None and self._novel_p and kind == LINE:
            key = (code, pos)
            if key not in self._seen_lines:
                self._seen_lines.add(key)
                if self.rng.random() < self._novel_p:
                    others = self._runnable_others(st)
                    if others:
                        target = others[self.rng.randrange(len(others))]
                        self.novel_switches += 1
        if target is None:
            target = self._decide(st, cname)
        if target is not None and target is not st:
            self._switch(st, target, kind, code, pos)

    def _do_perturb(self):
        import gc
        pt, r = self._perturb, self._perturb_rng
        self._perturb_next = self.gstep + r.randrange(1, pt.get('every', 200))
        self.perturbations += 1
        c = r.randrange(4)
        if c == 0:
            self._junk.append([object() for _ in range(r.randrange(1, 200))])
        elif c == 1 and self._junk:
            del self._junk[r.randrange(len(self._junk))]
        elif c == 2:
            self._junk.append({i: str(i) * 3 for i in range(r.randrange(1, 50))})
        if pt.get('collect', True) and r.random() < 0.5:
            gc.collect()

    def _overrun(self, st, code, pos):
        st.overruns += 1
        st.next_alarm += st.budget
        rec = {'thread': st.idx, 'op': st.op_label, 'op_lines': st.op_lines, 'budget': st.budget,
               'at': self._where(LINE, code, pos), 'overrun': st.overruns}
        self.liveness.append(rec)
        core.journal({'liveness': rec})
        if st.overruns <= 3:
            raise SimTimeout(f'operation {st.op_label!r} exceeded {st.budget} steps')
        if st.overruns >= 6:
            core.journal({'unabortable': rec})
            os._exit(77)

    # ---- policies -------------------------------------------------------------------------
    def _runnable_others(self, st):
        return [t for t in self.threads if t is not st and not t.done]

    def _geom(self, p):
        # number of points until the next switch, geometric with parameter p
        if p <= 0:
            return 1 << 60
        u = self.rng.random()
        import math
        return int(math.log(1.0 - u) / math.log(1.0 - p)) + 1 if p < 1 else 1

    def _decide(self, st, cname):
        pol = self.policy
        if pol == 'serial':
            return None
        if pol == 'explicit':
            if self._exp_i < len(self._explicit) and self._explicit[self._exp_i][0] <= self.gstep:
                g, to = self._explicit[self._exp_i]
                self._exp_i += 1
                if g != self.gstep or to >= len(self.threads) or self.threads[to].done:
                    self.divergence += 1
                    return None
                return self.threads[to]
            return None
        if pol == 'uniform' or pol == 'crit':
            if pol == 'crit' and cname is not None and (self._focus is None or cname in self._focus):
                if self.rng.random() < self.spec.get('q', 0.3):
                    others = self._runnable_others(st)
                    if others:
                        return others[self.rng.randrange(len(others))]
                return None
            if self._next_switch is None:
                self._next_switch = self.gstep + self._geom(self.spec.get('p', 0.01))
            if self.gstep >= self._next_switch:
                self._next_switch = self.gstep + self._geom(self.spec.get('p', 0.01))
                others = self._runnable_others(st)
                if others:
                    return others[self.rng.randrange(len(others))]
            return None
        if pol == 'pct':
            hit = False
            if self._change_points and self._change_points[0] <= self.gstep:
                while self._change_points and self._change_points[0] <= self.gstep:
                    self._change_points.pop(0)
                hit = True
            if cname is not None and self._focus_cps and (self._focus is None or cname in self._focus):
                self._focus_n += 1
                if self._focus_n == self._focus_cps[0]:
                    self._focus_cps.pop(0)
                    hit = True
            if not hit:
                return None
            self._low -= 1
            st.prio = self._low
            best = max((t for t in self.threads if not t.done), key=lambda t: t.prio)
            return best if best is not st else None
        raise core.HarnessError(f'unknown policy {pol!r}')

    def _pick_after_finish(self, st):
        live = [t for t in self.threads if not t.done]
        if not live:
            return None
        pol = self.policy
        if pol == 'explicit':
            if self._exp_i < len(self._explicit):
                g, to = self._explicit[self._exp_i]
                if g == self.gstep and to < len(self.threads) and not self.threads[to].done:
                    self._exp_i += 1
                    return self.threads[to]
            self.divergence += 1 if len(live) > 1 else 0
            return live[0]
        if pol == 'serial' or len(live) == 1:
            return live[0]
        if pol == 'pct':
            return max(live, key=lambda t: t.prio)
        return live[self.rng.randrange(len(live))]

    # ---- baton ----------------------------------------------------------------------------
    def _where(self, kind, code, pos):
        if code is None:
            return f'{kind}:{pos}'
        fn = code.co_filename
        if fn.startswith(core.PKG_PREFIX):
            fn = fn[len(core.PKG_PREFIX):]
        return f'{fn}:{code.co_name}:{kind}{pos}'

    def _regions_of_current(self):
        regs = []
        f = sys._getframe(3)
        while f is not None:
            n = self._crit_codes.get(f.f_code)
            if n is not None and n not in regs:
                regs.append(n)
            f = f.f_back
        return tuple(regs)

    def _switch(self, st, target, kind, code, pos):
        st.regions = self._regions_of_current()
        self._parked_regions = sum(1 for t in self.threads if t.regions and not t.done and t is not target)
        target.regions = ()
        self.switches.append([self.gstep, st.idx, target.idx,
                              self._where(kind, code, pos) if self.record_where else ''])
        self.cur = target
        target.sem.release()
        st.sem.acquire()
        # resumed
        st.regions = ()

    def _thread_main(self, st):
        st.sem.acquire()
        try:
            st.fn()
        except SimTimeout:
            st.error = 'SimTimeout escaped the client program'
        except BaseException:
            import traceback
            st.error = traceback.format_exc()
        finally:
            st.done = True
            st.regions = ()
            nxt = self._pick_after_finish(st)
            if nxt is None:
                self.cur = None
                self._all_done.release()
            else:
                self.switches.append([self.gstep, st.idx, nxt.idx, 'finish'])
                self.cur = nxt
                nxt.sem.release()

    # ---- public ---------------------------------------------------------------------------
    def run(self, fns):
        """Run the client programs (callables) to completion under this scheduler."""
        self.threads = [_T(i, fn) for i, fn in enumerate(fns)]
        if self.policy == 'pct':
            prios = list(range(len(self.threads)))
            self.rng.shuffle(prios)
            for t, p in zip(self.threads, prios):
                t.prio = p + 1
            self._low = 0
            span = self.spec.get('span', 40000)
            self._change_points = sorted(self.rng.randrange(1, span) for _ in range(max(0, self.spec.get('d', 2) - 1)))
        for t in self.threads:
            t.thread = threading.Thread(target=self._thread_main, args=(t,), name=f'client-{t.idx}', daemon=True)
        self._install()
        try:
            for t in self.threads:
                t.thread.start()
            if self.policy == 'explicit' and self._explicit and self._explicit[0][0] == 0:
                first = self.threads[self._explicit[0][1]]
                self._exp_i = 1
            elif self.policy == 'pct':
                first = max(self.threads, key=lambda t: t.prio)
            elif self.policy == 'serial':
                first = self.threads[self.spec.get('first', 0)]
            else:
                first = self.threads[self.rng.randrange(len(self.threads))]
            self.switches.append([0, -1, first.idx, 'start'])
            self.cur = first
            first.sem.release()
            self._all_done.acquire()
            for t in self.threads:
                t.thread.join()
        finally:
            self._uninstall()
        for t in self.threads:
            if t.error:
                raise core.HarnessError(f'client {t.idx} raised outside an operation:\n{t.error}')

    def explicit_spec(self):
        """The schedule actually taken, as a replayable spec."""
        return {'policy': 'explicit', 'opcodes': self.opcodes,
                'switches': [[g, to] for g, _, to, _ in self.switches]}

    def interleaving_digest(self):
        return core.digest([[f, t, w] for _, f, t, w in self.switches])


def begin_op(label, budget=None):
    """Mark the start of a client operation for the step clock."""
    s = CURRENT
    if s is None or s.cur is None:
        return
    st = s.cur
    st.op_label = label
    st.op_lines = 0
    st.overruns = 0
    st.budget = budget
    st.next_alarm = budget
    if s._fast:
        mon.register_callback(TOOL, EV.LINE, s._fast)


def end_op():
    s = CURRENT
    if s is None or s.cur is None:
        return 0
    st = s.cur
    n = st.op_lines
    st.next_alarm = None
    st.budget = None
    if s._fast:
        mon.register_callback(TOOL, EV.LINE, s._idle_callback)
    return n


def external(tag):
    s = CURRENT
    if s is not None:
        s.external(tag)
