"""Source of truth for /verif/MANIFEST.json: run `python -m aysim.manifest_src` to regenerate it."""
import json
import os

NA = {
    'C01': 'pure function of one document text (tag-erased PyYAML load vs build): no schedule, clock, fault or cross-call state in the statement; deterministic simulation has nothing to sample',
    'C02': 'pure function of the document list (recursive-update law); the fold is sequential, nothing for a scheduler or fault plan to choose',
    'C03': 'pure function of the document list (priority winner law)',
    'C04': 'pure function of the document list (deletion exactness)',
    'C05': 'relation between two pure merges (locality under wrapping); no schedule/fault/time dimension',
    'C08': 'process_cmdline is string rewriting plus a !notnew merge: pure function of base config and override strings',
    'C10': 'exactly-once here is memoisation inside one evaluate() call and key-order independence: pure per build, no redelivery/retry/concurrent consumer',
    'C11': 'functions of the merged tree; the statement puts no fault or schedule between the operations',
    'C13': 'argument binding and the function-node merge table are pure functions of the merged tree and the target signature',
    'C14': 'the !required scan is a pure function of the merged tree',
    'C16': '!append/!extend/!prev are pure functions of the stage list; nothing is promised about builder state after a failed premerge',
    'C18': 'dump-then-parse fidelity is a function of the tree; the stream/file arguments are incidental and nothing is promised about partial writes',
    'C19': 'copy/pickle fidelity is a function of the tree; nothing is promised about truncated pickles or concurrent mutation',
}
PLANNED = []

CHECKS = {
    'C20': {
        'text': 'seeded search over thread schedules (uniform / critical-window / PCT policies, line granularity, opcode granularity inside the functions that touch thread-local and process-wide state) of 2-3 client threads building from different files with different safe flags, includes and failing inputs (a share of the scenarios in an interpreter that turns SyntaxWarning into an error, the threads compiling code the compiler warns about); every observation of each thread is compared with an isolated serial twin run of the same program in a fresh process. A clean batch is evidence, not proof.',
        'note': 'trusts the scheduler to expose the relevant interleavings at Python line/opcode granularity of awesomeyaml frames; windows inside PyYAML or C code are not pre-empted; CPython 3.12.1 only',
        'technique': 'deterministic simulation: seeded thread-schedule search (baton-passing real threads on sys.monitoring events) with isolated-twin oracle',
        'ref': 'DESIGN.md 3.3, 4 (C20)'},
    'C06': {
        'text': 'the whole property runs on a simulated file system (in-memory tree, cwd, HOME behind the module-global open/os seams): seeded search over document sequences x delivery plans (separate file/text/stream sources, multi-document files, include lists, per-document includes, include chains 2-3 files deep, key: !include in ten placements incl. tagged ancestors, lists and multi-document files, the same file named twice, include merged over earlier content; documents also use !append/!extend/!clear/!prev/!new/!notnew) x directory layouts (next to the including file, sub/parent directory, cwd only, both with a different decoy copy in the cwd, absolute, ~) x fault plans (every kind of file missing; EACCES/EISDIR/EIO/ENAMETOOLONG/EINVAL/EMFILE/undecodable bytes on the k-th open; content replaced between opens; a source failing in open/read/parse followed by further use of the same builder). Oracles: every plan equals the separate-sources route; a lookup model (first existing of [directory of the including file, cwd]) is checked against the open log; a missing file must fail the build with an error naming it and no existing one; under an I/O fault the build fails or returns exactly the fault-free result; !path values equal the location computed from the file each node was physically written in. Sampling, not proof.',
        'note': 'merge semantics are not re-implemented (routes are compared with each other); cwd/HOME are constant during a build; error classes are not compared across routes, only success/failure',
        'technique': 'deterministic simulation: simulated file system with seeded layout/fault plans, route-equivalence + lookup-model + fail-or-exact oracles',
        'ref': 'DESIGN.md 3.2, 4 (C06)'},
    'C07': {
        'text': 'taint monitor over simulated runs: every scalar of a generated document is a unique token with a taint (S/U) known from where it is written (source safe flag, class default, !unsafe or safe metadata on/above the node, inclusion by unsafe content via !include / !rec on the simulated file system); 1-2 client threads build at the same time with different safe flags under seeded schedules, sources may fail inside the safe/unsafe window and the builder is used further; merge histories (argument / name / list / node overrides, placeholders, deletions, xref chains, eval code and f-strings reading config names, members of mappings and ayns.cfg, mixed-taint containers consumed whole, !rec / !include lists with per-name markers, a file included twice with different safety, imports) are the workload. Invariant at every recorder event (call, name resolution, import, eval probe) and over everything executed code produced: no U token; an unsafe dynamic node nothing overwrites must make the build fail with UnsafeError. Sampling, not proof.',
        'note': 'the monitor flags only what the statement forbids (the library may be more conservative); evaluated code is restricted to the probe rec(token, names...) and name reads; pre-emption points as in C20',
        'technique': 'deterministic simulation: seeded thread schedules + simulated include I/O + failing sources, taint-monitor invariant on every executed call/import/eval',
        'ref': 'DESIGN.md 4 (C07)'},
    'C12': {
        'text': 'seeded search over process histories (1-4 builds per forked process reusing node paths and code text with different config values, symbols, evaluation contexts and file names or none; some builds fail inside user code), optionally two histories in two threads under the seeded scheduler (shared sys.modules), with programs from a seeded grammar (expressions, assignments, def/lambda/closures/global, comprehensions, if/for/while with break/continue, try/except/finally, with, imports, annotations, >256 names needing extended bytecode arguments, functions returned and called after the build, deliberate errors) and f-strings (explicit, implicit and content-only form); config names and symbols vary between the builds of a history and one evaluation context may serve consecutive builds. Oracle per build: the interpreter\'s own exec/eval of the same program in a plain dict namespace (config entries, then symbols; definitions shadow; builtins last) run in a sibling fork - equal value and type, EvalError carrying the original cause along __cause__, and the child process must not die (a death by signal is reported as eval.crash). Sampling, not proof.',
        'note': 'CPython 3.12.1 only; programs contain no ";" and no class bodies reading config names; process-wide default eval symbols are treated as client configuration and reset by the client between builds',
        'technique': 'deterministic simulation: seeded build histories / thread schedules in forked processes (crash = child death), native exec/eval reference namespace per build',
        'ref': 'DESIGN.md 4 (C12)'},
    'C15': {
        'text': 'determinism harness pointed at the library: a document sequence is built in a pristine forked process and re-built (a) twice in a row after a seeded prior process history of other builds, some failing in parsing / merging / evaluation, (b) in a fresh thread of such a process, (c) under garbage-collector and allocation perturbation at seeded execution points (address reuse), (d) in interpreters started with other PYTHONHASHSEED values; evaluated config (key order included) and merged tree (flags included) must be equal. The four relational laws of the statement (repeat last document, insert {} at every position, permute keys of every mapping, mark untagged nodes !unsafe / !new) are checked on the same scenarios as related builds. Sampling, not proof.',
        'note': 'explicit !del only on non-empty containers (the remove-this-key idiom is excluded by the statement); documents hold no dynamic nodes; one recorded known finding (idempotence with priority tags on/inside lists over several documents)',
        'technique': 'deterministic simulation: seeded process histories, thread placement, GC/allocation perturbation and PYTHONHASHSEED re-execution with equality-of-related-builds oracle',
        'ref': 'DESIGN.md 3.5, 4 (C15)'},
    'C17': {
        'text': 'seeded search over operation-and-fault histories on a two-copy store (built-in dict/list storage vs child map): a Hypothesis stateful machine (one PRNG value per simulated run, database off) generates and shrinks sequences of all listed public mutators with in-range / out-of-range / negative / non-integer indices, missing and forbidden keys, unconvertible values, iterators that raise after k items and mappings whose items() raises; after every step a plain dict/list model and the cross-view invariants (same keys, same order, same objects, every entry a node, children 0..n-1, walk==lookup, path text round trip, evaluation == model) are checked; a failed operation must leave the pre-state or, for extend/update, a prefix; every operation runs under the simulator step clock (an operation that does not return within 60000 traced lines is a liveness violation); histories start from an empty mapping or from trees parsed from YAML (node keys, integer keys, merge flags) and use existing nodes, shallow copies and the containers themselves as arguments. Sampling, not proof.',
        'note': 'no asynchronous exceptions are injected; slices/sort/reverse/+=/popitem are outside the statement; operations without a Python-defined result (set_child beyond the end of a list, rename_child) are checked against the invariants only',
        'technique': 'deterministic simulation: seeded stateful operation/fault sequences (Hypothesis RuleBasedStateMachine) against a dict/list reference model, explicit replay files',
        'ref': 'DESIGN.md 2, 4 (C17)'},
    'C09': {
        'text': 'bounded liveness decided on the simulator step clock (traced line events, deterministic budget) plus a reference-graph model: seeded search over reference graphs (chains to 60, fan-in, forward/backward, containers, call arguments, dangling/self/cyclic) and over the routes by which the stages reach the builder (texts, files, multi-document, includes on the simulated file system). Sampling, not proof.',
        'note': 'the step budget (5M traced lines) stands for "hangs"; reference targets that traverse another reference are not generated',
        'technique': 'deterministic simulation: step-clock liveness budget + reference-graph model oracle over seeded runs',
        'ref': 'DESIGN.md 3.4, 4 (C09)'},
}


def build():
    checks = []
    for pid in sorted(CHECKS):
        c = CHECKS[pid]
        checks.append({
            'property_id': pid,
            'quick_cmd': f'bin/check {pid} --tier quick',
            'thorough_cmd': f'bin/check {pid} --tier thorough',
            'evidence_file': f'/verif/evidence/{pid}.json',
            'replay_cmd_template': f'bin/check {pid} --replay {{path}}',
            'engine': 'aysim',
            'level_claimed': {'category': 'exploration', 'text': c['text'], 'design_ref': c['ref']},
            'level_note': c['note'],
            'technique': c['technique'],
        })
    na = [{'property_id': k, 'reason': v} for k, v in sorted(NA.items())]
    na += [{'property_id': k, 'reason': 'claimed by design (DESIGN.md section 4) but its check is not built yet in this commit; it moves to checks when it is'}
           for k in PLANNED if k not in CHECKS]
    return {
        'version': 1,
        'setup_cmd': '/venv/bin/python -c "import hypothesis, yaml" 2>/dev/null || /venv/bin/pip install --no-index --find-links /opt/veriftools/wheels hypothesis',
        'hooks': {'guard': 'AWESOMEYAML_VERIF',
                  'enable': 'no source hooks: the simulator rebinds module globals (open, os) of awesomeyaml inside each forked run; nothing under /repo is guarded or changed',
                  'baseline_off_cmd': '/verif/bin/baseline-off', 'source_commits': [], 'add_only': True},
        'engines': [{'name': 'aysim', 'path': '/verif/aysim', 'serves_properties': sorted(CHECKS),
                     'kind_free_text': 'deterministic simulator: fork-per-run, baton-passing thread scheduler on sys.monitoring line/opcode events, in-memory file system seam, step clock, seeded search with minimised replay files'}],
        'checks': checks,
        'not_applicable': sorted(na, key=lambda x: x['property_id']),
        'notes': 'see DESIGN.md; bin/check <ID> [--tier quick|thorough] [--replay FILE] [--seed N]; exit 0 ok / 1 violation / 2 harness error; VERIF_SEED and VERIF_TIER are honoured',
    }


if __name__ == '__main__':
    path = os.path.join(os.path.dirname(os.path.abspath(__file__)), '..', 'MANIFEST.json')
    with open(path, 'w') as f:
        json.dump(build(), f, indent=1)
    print('wrote', os.path.realpath(path))
