"""Writer for /verif/evidence/<ID>.json (validated against the schema before it is written)."""
import os
import json
from . import core

SCHEMA = '/root/.vp/EVIDENCE.schema.json'

REAL = ['all of awesomeyaml (imported from the working tree of /repo)', 'PyYAML Loader/Dumper',
        'CPython 3.12 interpreter, threading.local, importlib, pickle, copy']
STUB = ['file system / cwd / HOME (aysim.simfs)', 'callables and import targets named by configs (aysim.recorder)',
        'thread scheduler: real threads, simulated choice of who runs (aysim.sched)']


def build(prop, tier, seed, n, n_keys, samples, stats, wall, n_viol, n_known=0, capped=False, workers=16, extra=None):
    steps = stats.get('lines', 0)
    cov = {
        'evaluations': int(n),
        'distinct_nontrivial': int(n_keys),
        'rule': prop.RULE,
        'samples': samples or [],
        'runs_per_hour': int(n / wall * 3600) if wall > 0 else 0,
        'simulated_steps_line_events': int(steps),
        'simulated_time_note': 'simulated time = count of traced Python line events of awesomeyaml code',
        'faults_fired': stats.get('faults', {}),
        'context_switches': int(stats.get('switches', 0)),
        'distinct_interleavings': int(stats.get('distinct_interleavings', 0)) or None,
        'critical_window_overlaps': stats.get('overlaps', {}),
        'outcomes': stats.get('outcomes', {}),
        'probes': stats.get('probes', {}),
        'determinism_sample': stats.get('determinism_sample', {}),
        'known_findings_hit': int(n_known),
        'stopped_by_wall_cap': bool(capped),
        'workers': workers,
        'real_components': REAL,
        'stub_components': STUB,
    }
    cov = {k: v for k, v in cov.items() if v is not None}
    if extra:
        cov.update({k: v for k, v in extra.items() if v is not None})
    return {
        'property_id': prop.ID,
        'tier': tier,
        'seed': int(seed),
        'level': 'exploration',
        'coverage': cov,
        'assumptions': list(prop.ASSUMPTIONS),
        'wall_s': round(wall, 2),
        'violations': int(n_viol),
    }


def write(prop_id, ev):
    d = os.environ.get('AYSIM_EVIDENCE_DIR') or os.path.join(core.VERIF, 'evidence')
    os.makedirs(d, exist_ok=True)
    try:
        import jsonschema
        with open(SCHEMA) as f:
            jsonschema.validate(ev, json.load(f))
    except ImportError:
        pass
    except FileNotFoundError:
        pass
    path = os.path.join(d, prop_id + '.json')
    tmp = path + '.tmp'
    with open(tmp, 'w') as f:
        json.dump(ev, f, indent=1, default=repr)
    os.replace(tmp, path)
    return path
