"""Importable recording targets: ``!call:simrec.f_<token>``, ``!import simrec.v_<token>`` and the
``rec(token, ...)`` probe for evaluated code.  Registered in ``sys.modules`` so that the real
``awesomeyaml.utils.import_name`` resolves them without touching disk."""
import sys
import types
import threading

from . import sched

LOG = []          # [thread name, kind, token, args]
LOG_RESOLVE = False  # log every resolution of a simrec.f_<token> name (and do not cache the function)
OBJ_HOOK = None   # optional callable(token, kwargs) receiving the real objects a target was called with


def _flat(v, out):
    """Collect every string found anywhere inside a received argument."""
    if isinstance(v, str):
        out.append(v)
    elif isinstance(v, dict):
        for k, x in v.items():
            _flat(k, out)
            _flat(x, out)
    elif isinstance(v, (list, tuple, set, frozenset)):
        for x in v:
            _flat(x, out)
    elif hasattr(v, 'func') and hasattr(v, 'keywords'):   # functools.partial
        _flat(getattr(v.func, '__name__', ''), out)
        _flat(list(v.args), out)
        _flat(dict(v.keywords), out)
    elif isinstance(v, pathlib.PurePath):
        out.append(str(v))
    elif v is None or isinstance(v, (int, float, bool)):
        out.append(repr(v))
    else:
        out.append('<' + type(v).__name__ + '>')
    return out


def _who():
    return threading.current_thread().name


def _make_f(token):
    def f(*args, **kwargs):
        sched.external('call:' + token)
        LOG.append([_who(), 'call', token, _flat([list(args), kwargs], [])])
        if OBJ_HOOK is not None:
            OBJ_HOOK(token, kwargs)
        return 'R' + token
    f.__name__ = 'f_' + token
    f.__qualname__ = 'f_' + token
    f.__module__ = 'simrec'
    return f


def rec(token, *args):
    """Probe usable from !eval / f-string code: rec('T7', a, b) logs what the code could read."""
    sched.external('eval:' + token)
    LOG.append([_who(), 'eval', token, _flat(list(args), [])])
    return 'E' + token


def positional(p0='-', p1='-', p2='-', p3='-', *rest, **kw):
    """A target with named positional parameters: reports which parameter received what."""
    LOG.append([_who(), 'call', 'positional', _flat([p0, p1, p2, p3, list(rest), kw], [])])
    return [p0, p1, p2, p3, list(rest), sorted(kw.items())]


def echo(**kwargs):
    """A target returning what it received."""
    LOG.append([_who(), 'call', 'echo', _flat(kwargs, [])])
    return dict(kwargs)


def raiser(token='x'):
    LOG.append([_who(), 'call', 'raiser_' + str(token), []])
    raise RuntimeError('user code failure ' + str(token))


class _SimRec(types.ModuleType):
    def __getattr__(self, name):
        if name.startswith('f_'):
            f = _make_f(name[2:])
            if LOG_RESOLVE:
                LOG.append([_who(), 'resolve', name[2:], []])
            else:
                setattr(self, name, f)
            return f
        if name.startswith('v_'):
            LOG.append([_who(), 'import', name[2:], []])
            return 'V' + name[2:]
        raise AttributeError(name)


def install():
    m = _SimRec('simrec')
    m.rec = rec
    m.raiser = raiser
    m.positional = positional
    m.echo = echo
    m.__file__ = '<simrec>'
    sys.modules['simrec'] = m
    del LOG[:]
    global LOG_RESOLVE, OBJ_HOOK
    LOG_RESOLVE = False
    OBJ_HOOK = None
    return m


# ---------------------------------------------------------------------------------------------
# importable modules whose top-level code takes a while (scheduler points inside it), and a cooperative
# version of the per-module import lock so that a client waiting for another client's import is
# parked by the simulator instead of blocking for real

import pathlib
import importlib.abc
import importlib.machinery


class _SlowLoader(importlib.abc.Loader):
    def create_module(self, spec):
        return None

    def exec_module(self, module):
        name = module.__name__
        LOG.append([_who(), 'module-exec-start', name, []])
        module.first_part = 'ready'
        sched.external('import-mid1:' + name)
        module.value = 'V' + name
        sched.external('import-mid2:' + name)
        module.target = _make_f(name)
        sched.external('import-mid3:' + name)
        LOG.append([_who(), 'module-exec-end', name, []])


class _SlowFinder(importlib.abc.MetaPathFinder):
    def find_spec(self, fullname, path=None, target=None):
        if fullname.startswith('simslow_') and '.' not in fullname:
            return importlib.machinery.ModuleSpec(fullname, _SlowLoader())
        if fullname == 'simslowpkg':
            return importlib.machinery.ModuleSpec(fullname, _SlowLoader(), is_package=True)      # a package ...
        if fullname.startswith('simslowpkg.') and fullname.count('.') == 1:
            return importlib.machinery.ModuleSpec(fullname, _SlowLoader())                       # ... and its (slow) submodules
        return None


def install_slow_modules():
    import importlib._bootstrap as ib
    import _thread
    if not any(isinstance(f, _SlowFinder) for f in sys.meta_path):
        sys.meta_path.insert(0, _SlowFinder())
    if getattr(ib._ModuleLock.acquire, '_aysim', False):
        return
    orig = ib._ModuleLock.acquire

    def coop_acquire(self):
        s = sched.CURRENT
        if s is None or not s.is_client_thread():
            return orig(self)
        tid = _thread.get_ident()
        while True:
            with self.lock:
                if self.count == [] or self.owner == tid:
                    self.owner = tid
                    self.count.append(True)
                    return True
            # held by a parked client: let the simulator run somebody else, then try again
            s.yield_blocked('import-lock:' + self.name)
    coop_acquire._aysim = True
    ib._ModuleLock.acquire = coop_acquire
