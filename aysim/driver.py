"""Check driver: sweep -> minimise -> known-findings -> evidence -> exit code.

Exit codes: 0 = only OK runs and KNOWN-FINDING lines; 1 = at least one VIOLATION line;
2 = harness error / harness timeout (a broken check must look neither like a pass nor a finding).
"""
import os
import sys
import json
import time
import argparse
import random

from . import core
from . import known as known_mod
from . import evidence as evidence_mod


def _tier_params(prop, tier):
    p = prop.TIERS[tier]
    return p['runs'], p['wall_cap']


def replay(prop, path):
    with open(path) as f:
        data = json.load(f)
    scenario = data['scenario']
    res = prop.execute(scenario)
    rules = sorted({v['rule'] for v in res['violations']})
    print(f'REPLAY property={prop.ID} file={path} expected_rule={data.get("rule")} observed_rules={rules}')
    if res.get('harness'):
        print('HARNESS-ERROR ' + str(res['harness'])[:2000])
        return 2
    if data.get('rule') in rules:
        for v in res['violations']:
            if v['rule'] == data.get('rule'):
                print('  ' + v['msg'][:1500])
                break
        kn = known_mod.load()
        v0 = [v for v in res['violations'] if v['rule'] == data.get('rule')][0]
        k = known_mod.match(kn, prop.ID, v0)
        if k:
            print(f'KNOWN-FINDING: property={prop.ID} {k["text"]}')
            return 0
        print(f'VIOLATION property={prop.ID} replay={path}')
        return 1
    print('replay did not reproduce the recorded rule')
    return 0 if not rules else 1


def minimise(prop, scenario, rule, budget_s=60.0, max_steps=400):
    """Greedy delta debugging driven by the property's own candidate generator."""
    t0 = time.monotonic()
    best = scenario
    steps = 0
    improved = True
    while improved and time.monotonic() - t0 < budget_s and steps < max_steps:
        improved = False
        for cand in prop.shrink(best):
            steps += 1
            if time.monotonic() - t0 > budget_s or steps > max_steps:
                break
            try:
                res = prop.execute(cand)
            except Exception:
                continue
            if res.get('harness'):
                continue
            if any(v['rule'] == rule for v in res['violations']):
                best = cand
                improved = True
                break
    return best, steps


def run_check(prop_name, tier, master, runs=None, wall_cap=None, workers=None, out_dir=None, quiet=False):
    from . import props
    core.bootstrap()
    prop = props.load(prop_name)
    n_runs, cap = _tier_params(prop, tier)
    if runs is not None:
        n_runs = runs
    if wall_cap is not None:
        cap = wall_cap
    workers = workers or min(16, os.cpu_count() or 1)
    out_dir = out_dir or os.path.join(core.VERIF, 'out', 'replays')
    os.makedirs(out_dir, exist_ok=True)
    t0 = time.monotonic()
    print(f'aysim check property={prop.ID} tier={tier} seed={master} runs={n_runs} workers={workers} repo={core.REPO}')
    sys.stdout.flush()

    results, wall, capped = core.sweep(prop_name, tier, master, n_runs, workers, cap, chunk=prop.TIERS[tier].get('chunk', 4))

    stats = {}
    keys = set()
    samples = []
    harness = []
    by_sig = {}
    for r in results:
        core.merge_stats(stats, r.get('stats', {}))
        for k in r.get('keys', []):
            keys.add(k)
        if r.get('sample') is not None and len(samples) < 3:
            samples.append(r['sample'])
        if r.get('harness'):
            harness.append((r['seed'], r['harness']))
        for v in r['violations']:
            sig = (v['rule'], json.dumps(v['features'], sort_keys=True))
            by_sig.setdefault(sig, []).append((r, v))

    kn = known_mod.load()
    exit_code = 0
    n_viol = 0
    n_known = 0
    printed_known = set()
    reported = []
    # group by signature; minimise one representative of each group
    t_min0 = time.monotonic()
    for sig, lst in sorted(by_sig.items(), key=lambda kv: kv[0]):
        lst.sort(key=lambda rv: len(json.dumps(rv[0].get('scenario'))))
        r, v = lst[0]
        k = known_mod.match(kn, prop.ID, v)
        if k is not None:
            # a known finding is identified on the *minimised* case: shrink first (short budget), so that a different
            # failure that merely happens to share the coarse features of the raw scenario is still reported
            try:
                mini_k, _ = minimise(prop, r['scenario'], v['rule'], budget_s=prop.TIERS[tier].get('min_known', 12))
                res_k = prop.execute(mini_k)
                v_k = next((x for x in res_k['violations'] if x['rule'] == v['rule']), v)
            except Exception:
                v_k = v
            k = known_mod.match(kn, prop.ID, v_k)
            if k is not None:
                n_known += len(lst)
                if k['text'] not in printed_known:
                    printed_known.add(k['text'])
                    print(f'KNOWN-FINDING: property={prop.ID} {k["text"]}  [{len(lst)} run(s), e.g. seed {r["seed"]}]')
                continue
            r['scenario'] = mini_k
        scenario = r['scenario']
        mini = scenario
        steps = 0
        if len(reported) < 6 and time.monotonic() - t_min0 < prop.TIERS[tier].get('min_budget', 120):
            try:
                mini, steps = minimise(prop, scenario, v['rule'], budget_s=prop.TIERS[tier].get('min_each', 40))
            except Exception as e:  # minimisation is best effort; the unminimised scenario still replays
                print(f'note: minimisation failed: {e!r}')
        # the minimised case may have become a known finding (same rule, now matching features)
        res2 = prop.execute(mini)
        v2 = next((x for x in res2['violations'] if x['rule'] == v['rule']), v)
        k2 = known_mod.match(kn, prop.ID, v2)
        if k2 is not None:
            n_known += len(lst)
            if k2['text'] not in printed_known:
                printed_known.add(k2['text'])
                print(f'KNOWN-FINDING: property={prop.ID} {k2["text"]}  [{len(lst)} run(s), e.g. seed {r["seed"]}; matched after minimisation]')
            continue
        n_viol += len(lst)
        path = os.path.join(out_dir, f'{prop.ID}-{r["seed"]}-{v["rule"].replace("/", "_")}.json')
        with open(path, 'w') as f:
            json.dump({'property': prop.ID, 'rule': v2['rule'], 'seed': r['seed'], 'msg': v2['msg'],
                       'features': v2['features'], 'minimise_steps': steps, 'scenario': mini,
                       'original_scenario_size': len(json.dumps(scenario))}, f, indent=1, default=repr)
        print(f'  rule={v2["rule"]} runs={len(lst)} features={v2["features"]}')
        print('  ' + v2['msg'][:1200].replace('\n', '\n  '))
        print(f'VIOLATION property={prop.ID} replay={path}')
        reported.append(path)
        exit_code = 1

    # determinism sample: a few of the runs are executed again in other worker processes; any difference in what
    # they report (verdict, traced steps, switches, faults, interleaving digests) means the simulator is not
    # deterministic and none of its verdicts - passes included - can be believed
    det_n = min(len(results), prop.TIERS[tier].get('det_sample', 12))
    det_bad = []
    if det_n and not harness:
        step = max(1, len(results) // det_n)
        sample = [r for r in results[::step]][:det_n]
        again = core.rerun(prop_name, tier, master, [r['index'] for r in sample], workers)
        det_bad = [r['index'] for r in sample if again.get(r['index']) != core.run_digest(r, prop)]
        stats['determinism_sample'] = {'reexecuted': len(sample), 'diverged': len(det_bad)}
        for i in det_bad[:3]:
            print(f'HARNESS-ERROR property={prop.ID} run index {i} did not reproduce itself when executed again (nondeterministic simulator)')
        if det_bad:
            exit_code = 2

    if harness:
        for seed, h in harness[:5]:
            print(f'HARNESS-ERROR property={prop.ID} seed={seed}: {str(h)[:1500]}')
        exit_code = 2

    total_wall = time.monotonic() - t0
    n = len(results)
    extra = prop.evidence_extra(stats) if hasattr(prop, 'evidence_extra') else {}
    ev = evidence_mod.build(prop, tier, master, n, len(keys), samples, stats, total_wall, n_viol,
                            n_known=n_known, capped=capped, workers=workers, extra=extra)
    problems = prop.reach_problems(stats, tier) if hasattr(prop, 'reach_problems') else []
    if n == 0:
        problems.append('no runs executed')
    if len(keys) < 2:
        problems.append(f'only {len(keys)} distinct non-trivial cases')
    evidence_mod.write(prop.ID, ev)
    for p in problems:
        print(f'HARNESS-ERROR property={prop.ID} reach: {p}')
        exit_code = max(exit_code, 2) if exit_code != 1 else 1
    if det_bad and exit_code != 1:
        exit_code = 2
    print(f'done property={prop.ID} runs={n} nontrivial={len(keys)} violations={n_viol} known={n_known} '
          f'harness_errors={len(harness)} wall={total_wall:.1f}s capped={capped} exit={exit_code}')
    return exit_code


def main(argv=None):
    ap = argparse.ArgumentParser(prog='check')
    ap.add_argument('property')
    ap.add_argument('--tier', default=os.environ.get('VERIF_TIER') or 'quick', choices=['quick', 'thorough'])
    ap.add_argument('--seed', type=int, default=None)
    ap.add_argument('--runs', type=int, default=None)
    ap.add_argument('--budget-s', type=float, default=None)
    ap.add_argument('--workers', type=int, default=None)
    ap.add_argument('--replay', default=None)
    args = ap.parse_args(argv)
    seed = args.seed
    if seed is None:
        try:
            seed = int(os.environ.get('VERIF_SEED', '') or 0)
        except ValueError:
            seed = core.derive_seed(0, os.environ['VERIF_SEED']) % (1 << 31)
    from . import props
    core.bootstrap()
    if args.replay:
        prop = props.load(args.property)
        return replay(prop, args.replay)
    return run_check(args.property, args.tier, seed, runs=args.runs, wall_cap=args.budget_s, workers=args.workers)
