"""known_findings.txt: genuine defects of the tree that are recorded rather than repaired.

Line forms (anything else is a comment):
  known: property=<ID> rule=<rule id> where=<k=v;k=v...> :: <what fails>
  fixed: property=<ID> <commit> <what failed>
A violation matches a ``known:`` line iff property and rule are equal and every k=v of ``where``
equals str(features[k]).  ``fixed:`` lines suppress nothing.  The file is never written at run time.
"""
import os
from . import core

PATH = os.path.join(core.VERIF, 'known_findings.txt')


def load(path=PATH):
    out = []
    if not os.path.exists(path):
        return out
    with open(path) as f:
        for line in f:
            line = line.strip()
            if not line.startswith('known:'):
                continue
            head, _, text = line[len('known:'):].partition('::')
            rec = {'where': {}, 'text': text.strip()}
            for tok in head.split():
                k, _, v = tok.partition('=')
                if k == 'where':
                    for cond in v.split(';'):
                        if cond:
                            ck, _, cv = cond.partition('=')
                            rec['where'][ck] = cv
                else:
                    rec[k] = v
            out.append(rec)
    return out


def match(known, prop_id, v):
    for k in known:
        if k.get('property') != prop_id or k.get('rule') != v['rule']:
            continue
        if all(str(v['features'].get(ck)) == cv for ck, cv in k['where'].items()):
            return k
    return None
