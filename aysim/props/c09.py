"""C09 - cross-references alias their target, in any order, and always terminate.

Simulated dimension: time.  One client thread under the scheduler, used for its step clock: a
build must return or raise within a (generous, deterministic) budget of traced line events.
Oracle: a small resolver over the generated reference graph (resolves / dangling / cyclic),
identity (``is``) between the evaluated entries, and the step budget.
"""
import copy

from .. import core, sched, simfs, recorder, observe, emit
from ..emit import m, q, s, raw

ID = 'C09'
RULE = ('a case = one generated config (nested mappings/lists/call arguments, unique leaf tokens) with a reference graph drawn '
        'per run (chains up to 60, fan-in, forward/backward, into/out of containers, dangling, self, cycles of length 2..6, '
        'cycles through containers) split over stages / included files; non-trivial iff the graph has at least one chain of '
        'length >= 2, a reference into a container or call argument, or a bad (dangling/self/cyclic) reference; '
        'distinct = distinct digest of (structure, reference graph, split)')
ASSUMPTIONS = [
    'termination is judged on the simulator step clock (traced line events of awesomeyaml code): budget 5000000 + 1380 * L^2 lines per build for a longest chain of L references, more than 10x the largest fault-free build of that size class (a forward chain costs ~115 * L^2 lines because every member re-follows the rest of the chain; L is at most 60, in 4% of the runs 270, in the thorough tier in 0.03% of the runs 1100 - longer than the recursion limit)',
    'reference targets are structural paths of the merged config; paths that would traverse *through* another reference are not generated (the statement does not define them)',
]
TIERS = {
    'quick': {'runs': 4500, 'wall_cap': 75, 'chunk': 24, 'min_budget': 40, 'min_each': 20},
    'thorough': {'runs': 120000, 'wall_cap': 900, 'chunk': 64, 'min_budget': 120, 'min_each': 40},
}
BUDGET = 5_000_000


# ---------------------------------------------------------------------------------------------
# generation: a logical structure S
#   {'t': 'leaf', 'v': token} | {'t': 'ref', 'to': [path]} | {'t': 'map', 'items': [[k, S]]}
#   {'t': 'list', 'items': [S]} | {'t': 'call', 'tok': name, 'items': [[k, S]]}

def _gen_struct(r, depth, counter, allow_call=True):
    c = r.random()
    if depth >= 3 or c < 0.45:
        counter[0] += 1
        kind = r.randrange(9)
        if kind == 0:
            return {'t': 'leaf', 'v': 1000 + counter[0]}
        if kind == 1:
            return {'t': 'leaf', 'v': counter[0] + 0.5}
        if kind == 2:
            # falsy values: an evaluated target that is falsy must still be the very same object for every consumer
            return {'t': 'leaf', 'v': r.choice([0, 0.0, '', False, None])}
        if kind == 3:
            return {'t': r.choice(['map', 'list']), 'items': []}      # empty containers are distinct objects: identity is observable
        return {'t': 'leaf', 'v': f'token-number-{counter[0]}-of-this-config'}
    if c < 0.70:
        n = r.randrange(1, 4)
        return {'t': 'map', 'items': [[f'm{i}', _gen_struct(r, depth + 1, counter, allow_call)] for i in range(n)]}
    if c < 0.90 or not allow_call:
        n = r.randrange(1, 4)
        return {'t': 'list', 'items': [_gen_struct(r, depth + 1, counter, allow_call) for _ in range(n)]}
    counter[0] += 1
    n = r.randrange(1, 3)
    # 'bind': the node evaluates to a partial holding the arguments instead of calling the target with them
    return {'t': 'call', 'tok': f'c{counter[0]}', 'bind': r.random() < 0.35, 'items': [[f'p{i}', _gen_struct(r, depth + 1, counter, False)] for i in range(n)]}


def _paths(node, prefix, out, kinds):
    out.append(list(prefix))
    kinds[tuple(prefix)] = node['t']
    if node['t'] in ('map', 'call'):
        for k, v in node['items']:
            _paths(v, prefix + [k], out, kinds)
    elif node['t'] == 'list':
        for i, v in enumerate(node['items']):
            _paths(v, prefix + [i], out, kinds)


def _get(node, path):
    for c in path:
        if node['t'] in ('map', 'call'):
            for k, v in node['items']:
                if k == c:
                    node = v
                    break
            else:
                return None
        elif node['t'] == 'list':
            if not isinstance(c, int) or c < 0 or c >= len(node['items']):
                return None
            node = node['items'][c]
        else:
            return None
    return node


def _set(root, path, new):
    parent = _get(root, path[:-1])
    k = path[-1]
    if parent['t'] == 'list':
        parent['items'][k] = new
    else:
        for it in parent['items']:
            if it[0] == k:
                it[1] = new


def generate(r, tier, index):
    counter = [0]
    n_top = r.randrange(2, 9)
    root = {'t': 'map', 'items': [[f'k{i}', _gen_struct(r, 1, counter)] for i in range(n_top)]}
    mode = r.choice(['acyclic'] * 6 + ['cycle', 'cycle', 'self', 'dangling', 'dangling', 'through_ref', 'container_cycle', 'chain_to_cycle'])
    paths, kinds = [], {}
    _paths(root, [], paths, kinds)
    paths = [p for p in paths if p]
    leaves = [p for p in paths if kinds[tuple(p)] == 'leaf']
    r.shuffle(leaves)
    n_refs = min(len(leaves) - 1, r.randrange(1, 7)) if len(leaves) > 1 else 0
    ref_pos = leaves[:max(0, n_refs)]
    targets = [p for p in paths if p not in ref_pos]
    for p in ref_pos:
        # never point into own subtree/ancestors for the acyclic part
        cands = [t for t in targets if t[:len(p)] != p and p[:len(t)] != t]
        if not cands:
            continue
        _set(root, p, {'t': 'ref', 'to': r.choice(cands + ref_pos[:1] if r.random() < 0.3 else cands)})
    # a long chain c0 -> c1 -> ... -> target
    if r.random() < 0.5:
        L = r.choice([2, 3, 5, 10, 25, 60, 2, 3, 5, 10, 25, 60, 2, 3, 5, 10, 25, 60, 2, 3, 5, 10, 25, 60, 270])
        if tier == 'thorough' and r.random() < 0.0006:
            L = 1100      # "chains of any length": longer than the interpreter's recursion limit (tens of seconds per build: thorough tier only)
        tgt = r.choice(targets) if targets else ['k0']
        order = list(range(L))
        for i in range(L):
            to = [f'c{i + 1}'] if i + 1 < L else tgt
            root['items'].append([f'c{i}', {'t': 'ref', 'to': to}])
        if r.random() < 0.5:   # chain members written in reverse / shuffled order (forward and backward refs)
            tail = root['items'][-L:]
            r.shuffle(tail)
            root['items'][-L:] = tail
    # bad references
    if mode == 'self':
        root['items'].append(['selfref', {'t': 'ref', 'to': ['selfref']}])
    elif mode == 'dangling':
        lists = [p for p in paths if kinds[tuple(p)] == 'list' and _get(root, p) is not None and _get(root, p)['t'] == 'list']
        maps = [p for p in paths if kinds[tuple(p)] == 'map' and _get(root, p) is not None and _get(root, p)['t'] == 'map']
        refs_now = [p for p in paths if _get(root, p) is not None and _get(root, p)['t'] == 'ref']
        cands = [['nowhere'], ['k0', 'missing', 'x'], ['k0', 99], [f'k{n_top + 3}']]
        for lp in lists[:3]:
            n = len(_get(root, lp)['items'])
            cands += [lp + [-1], lp + [-n - 1], lp + [n], lp + ['name']]      # negative indices do not address list children
        for mp in maps[:2]:
            cands += [mp + [0], mp + ['no_such_key']]
        for lf in leaves[:2]:
            cands += [lf + ['below_a_leaf']]
        for rp in refs_now[:3]:
            cands += [rp + ['x'], rp + [0]]                                     # a path cannot lead through a reference
        bad = r.choice(cands)
        if _get(root, bad) is None:
            where = r.choice(['top', 'nested', 'chain_end'])
            if where == 'top':
                root['items'].append(['dang', {'t': 'ref', 'to': bad}])
            elif where == 'nested':
                root['items'].append(['dangbox', {'t': 'map', 'items': [['in', {'t': 'list', 'items': [{'t': 'ref', 'to': bad}]}]]}])
            else:
                root['items'].append(['dang_end', {'t': 'ref', 'to': bad}])
                root['items'].append(['dang_mid', {'t': 'ref', 'to': ['dang_end']}])
                root['items'].append(['dang_start', {'t': 'ref', 'to': ['dang_mid']}])
    elif mode == 'through_ref':
        # references whose path leads through a reference (possibly itself): a missing path by the statement - an error, never a hang
        c = r.randrange(4)
        if c == 0:
            root['items'].append(['tr_a', {'t': 'ref', 'to': ['tr_a', 'x']}])
        elif c == 1:
            root['items'].append(['tr_a', {'t': 'ref', 'to': ['tr_b', 'k']}])
            root['items'].append(['tr_b', {'t': 'ref', 'to': ['tr_a', 'k']}])
        elif c == 2:
            root['items'].append(['tr_m', {'t': 'map', 'items': [['r', {'t': 'ref', 'to': ['tr_m', 'r', 's']}]]}])
        else:
            root['items'].append(['tr_t', {'t': 'ref', 'to': [r.choice(targets)[0] if targets else 'k0']}])
            root['items'].append(['tr_u', {'t': 'ref', 'to': ['tr_t', 0, 'deeper']}])
    elif mode in ('cycle', 'chain_to_cycle'):
        n = r.randrange(2, 7)
        names = [f'y{i}' for i in range(n)]
        nested = r.random() < 0.4
        for i, nm in enumerate(names):
            to = [names[(i + 1) % n]] if not nested else ['ybox', names[(i + 1) % n]]
            if not nested:
                root['items'].append([nm, {'t': 'ref', 'to': to}])
        if nested:
            root['items'].append(['ybox', {'t': 'map', 'items': [[nm, {'t': 'ref', 'to': ['ybox', names[(i + 1) % n]]}] for i, nm in enumerate(names)]}])
        if mode == 'chain_to_cycle':
            entry = ['ybox', names[0]] if nested else [names[0]]
            root['items'].append(['lead1', {'t': 'ref', 'to': ['lead2']}])
            root['items'].append(['lead2', {'t': 'call', 'tok': 'lead', 'items': [['arg', {'t': 'ref', 'to': entry}]]}])
    elif mode == 'container_cycle':
        root['items'].append(['ca', {'t': 'map', 'items': [['x', {'t': 'ref', 'to': ['cb']}]]}])
        root['items'].append(['cb', {'t': 'list', 'items': [{'t': 'leaf', 'v': 'cb-leaf-token-value'}, {'t': 'ref', 'to': ['ca']}]}])
    if r.random() < 0.25:
        # names that a YAML reader would take for booleans / null if it resolved them, referenced in every spelling
        for i, nm in enumerate(r.sample(['on', 'off', 'no', 'yes', 'null', 'true', 'False', 'NULL', 'y', 'n'], r.randrange(1, 4))):
            counter[0] += 1
            root['items'].append([nm, {'t': 'leaf', 'v': f'token-number-{counter[0]}-of-this-config'}])
            root['items'].append([f'odd{i}', {'t': 'ref', 'to': [nm], 'sp': r.choice(['plain', 'md', 'md', 'md_quoted', 'quoted'])}])
    if r.random() < 0.3:
        for k_, v_ in root['items']:
            if v_['t'] == 'ref' and 'sp' not in v_:
                v_['sp'] = r.choice(['quoted', 'plain', 'md', 'md_quoted'])
    if r.random() < 0.3:
        r.shuffle(root['items'])
    # split over stages / files: top-level keys are partitioned (disjoint keys: the merge is a plain union)
    n_stage = r.choice([1, 1, 2, 3])
    assign = [r.randrange(n_stage) for _ in root['items']]
    route = r.choice(['text', 'files', 'include_top', 'include_key', 'multidoc'])
    # history: an earlier build of a similar config (other leaf values, dangling targets present) evaluated with the same context object
    prior = r.random() < 0.25
    if prior and r.random() < 0.4:
        prior = 'failing'     # ... an earlier build that failed at its very end (a dangling reference in its last entry)
    if not prior and r.random() < 0.15:
        prior = 'reeval'      # the tree itself is evaluated, then changed in place (top-level leaves replaced), then evaluated again
    # a twentieth of the builds run in a re-executed interpreter started with -O (long chains excepted: they take too long to afford twice)
    optimised = r.random() < 0.05 and not any(k == 'c100' for k, _ in root['items'])
    return {'struct': root, 'mode': mode, 'assign': assign, 'n_stage': n_stage, 'route': route, 'tag': r.choice(['!xref', '!ref']), 'prior': prior,
            'optimised': optimised}


def _reeval_struct(root):
    """The structure after the in-place change of a 'reeval' history: every top-level leaf holds a new value."""
    st = copy.deepcopy(root)
    changed = []
    for k, v in st['items']:
        if v['t'] == 'leaf':
            v['v'] = f'value-of-{k}-after-the-change'
            changed.append(k)
    return st, changed


def _prior_struct(root):
    """The config built earlier with the same evaluation context: same shape, every leaf holds another value, and
    top-level names the later config refers to without defining them exist."""
    pr = copy.deepcopy(root)

    def walk(n):
        if n['t'] == 'leaf':
            v = n['v']
            n['v'] = (v + '-from-the-earlier-build') if isinstance(v, str) and v else 'earlier-value-of-a-falsy-leaf' if not v else v + 7
        elif n['t'] in ('map', 'call'):
            for _, c in n['items']:
                walk(c)
        elif n['t'] == 'list':
            for c in n['items']:
                walk(c)
    walk(pr)
    have = {k for k, _ in pr['items']}

    def refs(n, out):
        if n['t'] == 'ref':
            out.append(n['to'])
        elif n['t'] in ('map', 'call'):
            for _, c in n['items']:
                refs(c, out)
        elif n['t'] == 'list':
            for c in n['items']:
                refs(c, out)
        return out
    for to in refs(pr, []):
        if len(to) == 1 and to[0] not in have:
            pr['items'].append([to[0], {'t': 'leaf', 'v': 'defined-in-the-earlier-build-only'}])
            have.add(to[0])
    return pr


# ---------------------------------------------------------------------------------------------
# the reference model

def model(root):
    """Returns (bad, final): bad = reason string if evaluation must fail, final = {ref path: resolved non-ref path}."""
    state = {}
    final = {}
    bad = []

    def visit(path):
        key = tuple(path)
        if state.get(key) == 'done':
            return
        if state.get(key) == 'busy':
            bad.append('cycle')
            return
        state[key] = 'busy'
        node = _get(root, path)
        if node['t'] == 'ref':
            # follow the direct chain
            seen = [key]
            cur = node
            tgt = None
            while cur is not None and cur['t'] == 'ref':
                tgt = cur['to']
                nxt = _get(root, tgt)
                if nxt is None:
                    bad.append('dangling')
                    state[key] = 'done'
                    return
                if tuple(tgt) in seen and nxt['t'] == 'ref':
                    bad.append('self' if len(seen) == 1 else 'cycle')
                    state[key] = 'done'
                    return
                seen.append(tuple(tgt))
                cur = nxt
            final[key] = list(tgt)
            visit(list(tgt))
        elif node['t'] in ('map', 'call'):
            for k, _ in node['items']:
                visit(path + [k])
        elif node['t'] == 'list':
            for i in range(len(node['items'])):
                visit(path + [i])
        state[key] = 'done'

    visit([])
    return (bad[0] if bad else None), final


# ---------------------------------------------------------------------------------------------
# emission

def _path_text(path):
    out = ''
    for c in path:
        if isinstance(c, int):
            out += f'[{c}]'
        else:
            out += ('.' if out else '') + c
    return out


def _to_emit(node, tag):
    t = node['t']
    if t == 'leaf':
        return s(node['v'])
    if t == 'ref':
        # spellings: quoted path (default), plain scalar, and the annotated form !xref{{..}} path
        sp = node.get('sp', 'quoted')
        text = _path_text(node['to'])
        if '[' in text or sp in ('quoted', 'md_quoted'):
            text = '"' + text + '"'
        return raw((tag + "{{'hop': 1}}" if sp.startswith('md') else tag) + ' ' + text)
    if t == 'map':
        return m([[k, _to_emit(v, tag)] for k, v in node['items']])
    if t == 'list':
        return q([_to_emit(v, tag) for v in node['items']])
    if t == 'call':
        return m([[k, _to_emit(v, tag)] for k, v in node['items']], tag=f'!{"bind" if node.get("bind") else "call"}:simrec.f_{node["tok"]}')
    raise ValueError(t)


def _layout(sc):
    """-> (files, sources): how the stages reach the builder."""
    root = sc['struct']
    docs = []
    for st in range(sc['n_stage']):
        items = [[k, _to_emit(v, sc['tag'])] for (k, v), a in zip(root['items'], sc['assign']) if a == st]
        docs.append(m(items))
    docs = [d for d in docs if d['items']] or [m([])]
    files = {}
    route = sc['route']
    if route == 'text':
        return files, [{'text': emit.emit_doc(d)} for d in docs]
    if route == 'multidoc':
        files['/w/all.yaml'] = emit.emit_stream(docs)
        return files, [{'path': '/w/all.yaml'}]
    for i, d in enumerate(docs):
        files[f'/w/conf/s{i}.yaml'] = emit.emit_doc(d)
    if route == 'files':
        return files, [{'path': f'/w/conf/s{i}.yaml'} for i in range(len(docs))]
    if route == 'include_top':
        files['/w/conf/main.yaml'] = '!include [' + ', '.join(f's{i}.yaml' for i in range(len(docs))) + ']\n'
        return files, [{'path': '/w/conf/main.yaml'}]
    # include_key: every stage but the first is included below its own top-level keys is not expressible; instead
    # the first stage is a file, later stages are pulled in by a top-level include from a text source (cwd lookup)
    files['/w/s_extra.yaml'] = emit.emit_stream(docs[1:]) if len(docs) > 1 else '{}\n'
    return files, [{'path': '/w/conf/s0.yaml'}, {'text': '!include s_extra.yaml\n'}]


# ---------------------------------------------------------------------------------------------
# execution

def _navigate(cfg, path, struct, rec_objs):
    """Object at ``path`` of the evaluated config; below a call node, the object the target received."""
    node = struct
    obj = cfg
    for i, c in enumerate(path):
        if node['t'] == 'call':
            got = rec_objs.get(node['tok']) if not node.get('bind') else getattr(obj, 'keywords', None)
            if got is None:
                return None, False
            obj = got
            node_next = _get(node, [c])
            obj = obj[c]
            node = node_next
            continue
        obj = obj[c]
        node = _get(node, [c])
    if node['t'] == 'call':
        return None, False   # the call's own result replaces it
    return obj, True


def budget_for(sc):
    """Step budget of one build: generous constant plus a term for the longest chain - every member of a forward
    chain re-follows the rest of it, so a fault-free build of an L-chain costs about 115 * L^2 traced lines."""
    L = max([0] + [int(k[1:]) + 1 for k, _ in sc['struct']['items'] if isinstance(k, str) and k.startswith('c') and k[1:].isdigit()])
    return BUDGET + 12 * 115 * L * L


def _child(sc):
    from awesomeyaml import Builder, Config
    from awesomeyaml import errors
    files, sources = _layout(sc)
    fs = simfs.SimFS(files, cwd='/w').install()
    rec = recorder.install()
    rec_objs = {}

    def hook(token, kwargs):
        rec_objs[token] = kwargs
    recorder.OBJ_HOOK = hook
    out = {}

    def client():
        from awesomeyaml import EvalContext
        ctx = None
        if sc.get('prior') in (True, 'failing'):
            ctx = EvalContext()
            sched.begin_op('prior_build', budget_for(sc))
            try:
                pb = Builder()
                pstruct = _prior_struct(sc['struct'])
                if sc.get('prior') == 'failing':
                    pstruct['items'].append(['zz_fails_last', {'t': 'ref', 'to': ['nowhere_at_all_zz']}])
                pb.add_source(emit.emit_doc(_to_emit(pstruct, sc['tag'])), raw_yaml=True)
                Config(pb.build(), eval_ctx=ctx)
                out['prior'] = 'ok'
            except sched.SimTimeout:
                out['prior'] = 'timeout'
            except errors.Error as e:
                out['prior'] = 'error:' + type(e).__name__
            sched.end_op()
        sched.begin_op('build', budget_for(sc))
        try:
            b = Builder()
            for src in sources:
                if 'path' in src:
                    b.add_source(src['path'], raw_yaml=False)
                else:
                    b.add_source(src['text'], raw_yaml=True)
            if sc.get('prior') == 'reeval':
                tree = b.build()
                try:
                    EvalContext().evaluate(tree)
                    out['prior'] = 'ok'
                except errors.Error as e:
                    out['prior'] = 'error:' + type(e).__name__
                for k in _reeval_struct(sc['struct'])[1]:
                    tree[k] = f'value-of-{k}-after-the-change'
                cfg = EvalContext().evaluate(tree)
            else:
                cfg = Config(b.build()) if ctx is None else Config(b.build(), eval_ctx=ctx)
            out['status'] = 'ok'
            out['cfg'] = cfg
        except sched.SimTimeout:
            out['status'] = 'timeout'
        except Exception as e:
            out['status'] = 'error'
            out['exc'] = observe.exc_signature(e, with_frames=False)
            out['is_eval_error'] = isinstance(e, errors.EvalError)
            out['is_ay_error'] = isinstance(e, errors.Error)
        out['lines'] = sched.end_op()

    sc_ = sched.Scheduler({'policy': 'serial'}, opcodes=False)
    sc_.run([client])
    res = {'status': out['status'], 'lines': out['lines'], 'liveness': sc_.liveness, 'exc': out.get('exc'),
           'is_eval_error': out.get('is_eval_error'), 'is_ay_error': out.get('is_ay_error'), 'opens': len(fs.opened_ok()), 'prior': out.get('prior')}
    struct = _reeval_struct(sc['struct'])[0] if sc.get('prior') == 'reeval' else sc['struct']
    if out['status'] == 'ok':
        cfg = out['cfg']
        bad, final = model(struct)
        ident, vals = [], []
        checked = 0
        for key, tgt in sorted(final.items()):
            a, oka = _navigate(cfg, list(key), sc['struct'], rec_objs)
            b_, okb = _navigate(cfg, tgt, sc['struct'], rec_objs)
            if not (oka and okb):
                continue
            checked += 1
            if a is not b_:
                ident.append([_path_text(list(key)), _path_text(tgt), observe.norm_text(repr(a))[:80], observe.norm_text(repr(b_))[:80],
                              type(b_).__name__])
        # values of leaves
        paths, kinds = [], {}
        _paths(sc['struct'], [], paths, kinds)
        for p in paths:
            if kinds[tuple(p)] == 'leaf':
                o, ok = _navigate(cfg, p, sc['struct'], rec_objs)
                want = _get(struct, p)['v']
                if ok and (o != want or type(o) is not type(want)):
                    vals.append([_path_text(p), repr(o), repr(want)])
        res['identity_failures'] = ident
        res['value_failures'] = vals
        res['identity_checked'] = checked
    return res


def _optimised_child(sc):
    """The same child in a re-executed interpreter started with -O (assert statements are stripped): the answer must not depend on it."""
    import json
    import os
    import subprocess
    import sys
    env = dict(os.environ)
    env['PYTHONPATH'] = core.VERIF
    env['PYTHONDONTWRITEBYTECODE'] = '1'
    env.setdefault('PYTHONHASHSEED', '0')
    try:
        p = subprocess.run([sys.executable, '-O', '-c', 'from aysim.props import c09; c09._o_worker()'], input=json.dumps(sc).encode(), env=env,
                           stdout=subprocess.PIPE, stderr=subprocess.PIPE, timeout=400, cwd=core.VERIF)
    except subprocess.TimeoutExpired:
        return {'status': 'timeout', 'journal': [{'liveness': 'no answer from the -O interpreter within 400 s'}]}
    if p.returncode == 77:      # the scheduler gave up on an operation that ignores SimTimeout
        return {'status': 'timeout', 'journal': [{'liveness': 'operation could not be aborted (-O interpreter)'}]}
    if p.returncode != 0:
        return {'status': 'error', 'error': p.stderr.decode()[-800:], 'journal': []}
    return {'status': 'ok', 'value': json.loads(p.stdout.decode().strip().splitlines()[-1]), 'journal': []}


def _o_worker():
    import json
    import sys
    core.bootstrap()
    assert_stripped = True
    assert not (assert_stripped := False) or True      # stays True only under -O
    out = _child(json.loads(sys.stdin.read()))
    out['assert_stripped'] = assert_stripped
    print(json.dumps(out, default=repr))


def execute(sc):
    res = core.ok_result()
    st = res['stats']
    bad, final = model(sc['struct'])
    c = _optimised_child(sc) if sc.get('optimised') else core.fork_call(_child, (sc,), timeout=240.0)
    live = [j['liveness'] for j in c.get('journal', []) if 'liveness' in j]
    if c['status'] == 'timeout' or (c['status'] == 'crash' and live) or (c['status'] == 'error' and live):
        if live:
            res['violations'].append(core.violation('liveness.step_budget', f'build did not finish within {budget_for(sc)} steps and could not be aborted: {live[0]}', graph=bad or 'acyclic'))
            return res
    if c['status'] != 'ok':
        res['harness'] = f'{c["status"]}: {c.get("error", c.get("signal", ""))}'
        return res
    v = c['value']
    st['lines'] = v['lines']
    st['runs'] = 1
    st.setdefault('outcomes', {})[v['status'] + ':' + (bad or 'acyclic')] = 1
    st.setdefault('probes', {})['max_op_lines'] = v['lines']
    if sc.get('optimised'):
        st.setdefault('probes', {})['interpreter_with_-O'] = 1
        if not v.get('assert_stripped'):
            res['harness'] = 'the -O worker did not run with assertions stripped'
            return res
    if v.get('prior'):
        st.setdefault('faults', {})[('tree_evaluated_changed_evaluated_again:' if sc.get('prior') == 'reeval' else 'earlier_build_same_context:') + v['prior'].split(':')[0]] = 1
    chain_len = max([0] + [int(k[1:]) + 1 for k, _ in sc['struct']['items'] if k.startswith('c') and k[1:].isdigit()])
    into_container = any(len(t) > 1 for t in final.values())
    if bad or chain_len >= 2 or into_container:
        res['keys'].append(core.digest([sc['struct'], sc['assign'], sc['route']]))
    if bad:
        st.setdefault('faults', {})['bad_reference:' + bad] = 1
    if v['liveness'] or v['status'] == 'timeout':
        res['violations'].append(core.violation(
            'liveness.step_budget', f'Config build exceeded the step budget of {budget_for(sc)} traced lines ({sc["mode"]} graph): {v["liveness"][:1]}',
            graph=bad or 'acyclic'))
    elif bad and v['status'] == 'ok':
        res['violations'].append(core.violation('xref.error_expected', f'reference graph has a {bad} reference but the build succeeded', graph=bad))
    elif bad and not v['is_eval_error']:
        res['violations'].append(core.violation('xref.error_kind', f'{bad} reference reported as {v["exc"]["type"]} (not an EvalError): {v["exc"].get("msg", "(recursion limit involved)")[:300]}', graph=bad, type=v['exc']['type']))
    elif not bad and v['status'] != 'ok':
        res['violations'].append(core.violation('xref.unexpected_error', f'all references resolve but the build failed: {v["exc"]["type"]}: {v["exc"].get("msg", "(recursion limit involved)")[:400]}', type=v['exc']['type']))
    elif not bad:
        st['identity_checked'] = v['identity_checked']
        if v['identity_failures']:
            f = v['identity_failures'][0]
            res['violations'].append(core.violation('xref.not_same_object', f'cfg[{f[0]}] is not cfg[{f[1]}]: {f[2]} vs {f[3]}', target_type=f[4]))
        if v['value_failures']:
            f = v['value_failures'][0]
            res['violations'].append(core.violation('xref.wrong_value', f'leaf {f[0]} evaluated to {f[1]}, expected {f[2]}'))
    files, sources = _layout(sc)
    res['sample'] = {'mode': sc['mode'], 'route': sc['route'], 'sources': sources, 'files': files, 'model_bad': bad,
                     'resolved': {_path_text(list(k)): _path_text(t) for k, t in list(final.items())[:6]}, 'outcome': v['status'], 'lines': v['lines']}
    return res


def shrink(sc):
    root = sc['struct']
    # drop top-level entries
    for i in range(len(root['items'])):
        c = copy.deepcopy(sc)
        del c['struct']['items'][i]
        del c['assign'][i]
        yield c
    if sc.get('optimised'):
        c = copy.deepcopy(sc)
        c['optimised'] = False
        yield c
    if sc.get('prior'):
        c = copy.deepcopy(sc)
        c['prior'] = False
        yield c
    if sc['route'] != 'text':
        c = copy.deepcopy(sc)
        c['route'] = 'text'
        yield c
    if sc['n_stage'] > 1:
        c = copy.deepcopy(sc)
        c['n_stage'] = 1
        c['assign'] = [0] * len(c['assign'])
        yield c
    # replace nested containers by leaves
    for i, (k, v) in enumerate(root['items']):
        if v['t'] in ('map', 'list', 'call'):
            c = copy.deepcopy(sc)
            c['struct']['items'][i][1] = {'t': 'leaf', 'v': 'shrunk-leaf-token-value-' + str(i)}
            yield c
            for j in range(len(v['items'])):
                if len(v['items']) > 1:
                    c = copy.deepcopy(sc)
                    del c['struct']['items'][i][1]['items'][j]
                    yield c


def evidence_extra(stats):
    return {'identity_pairs_checked': stats.get('identity_checked', 0)}


def reach_problems(stats, tier):
    probs = []
    oc = stats.get('outcomes', {})
    for need in ('ok:acyclic', 'error:cycle', 'error:self', 'error:dangling'):
        if not oc.get(need):
            probs.append(f'outcome {need} never observed')
    if not stats.get('identity_checked'):
        probs.append('no identity pair was checked')
    return probs
