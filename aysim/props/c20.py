"""C20 - concurrent builds in different threads do not influence each other.

Workload: K client threads, each building configs through its own builders from its own files
(different safe flags, includes, !rec, texts with/without filename, failing inputs).
Schedule space: seeded policies of aysim.sched at line granularity (opcode granularity in the
critical functions).  Oracle: per-thread isolated twin - the same program alone, serial, in a
sibling fork; every observation (node attributes, evaluated config, pickling, recorder log,
exception signatures) must be equal.
"""
import copy
import json
import pickle
import random

from .. import core, sched, simfs, recorder, observe, emit, gen
from ..emit import m, q, s, raw

ID = 'C20'
RULE = ('a case = (client programs, schedule); programs are generated from the run seed (files, sources, safe flags, '
        'includes, failing inputs), schedules are drawn from uniform/crit/pct policies; a case is non-trivial iff at least '
        'one context switch happened while the pre-empted thread was inside a critical region (default_filename / '
        'default_safe_flag / api_entry / add_source / scalar type registry / node constructor); distinct = distinct '
        '(program digest, interleaving digest)')
ASSUMPTIONS = [
    'pre-emption points are Python line events of awesomeyaml code (bytecode instructions inside the listed critical functions) plus simulated I/O calls; races whose window lies inside C code or PyYAML are not explored',
    'client programs are history-independent by construction (no shared !eval namespaces, own builders, own files), so equality with the isolated twin is the serialisability condition',
    'the isolated twin runs the same real code serially in a fresh forked process',
]
TIERS = {
    'quick': {'runs': 260, 'wall_cap': 75, 'chunk': 2, 'scheds': 8, 'min_budget': 60, 'min_each': 25},
    'thorough': {'runs': 6000, 'wall_cap': 900, 'chunk': 4, 'scheds': 16, 'min_budget': 240, 'min_each': 60},
}

CWD = '/w'


# ---------------------------------------------------------------------------------------------
# generation

def _doc(g, r, ti, files, dirpath, depth_budget=2, allow_fail=True):
    """One top-level mapping for thread ti, to live in directory ``dirpath`` (None: a text source
    without a file name, whose includes resolve against the cwd only); may add files."""
    items = []
    keys = r.sample(gen.KEYS, r.randrange(1, 5))
    for k in keys:
        c = r.randrange(24)
        g.n += 1
        uid = g.n
        if c < 9:
            v = g.value(1)
        elif c == 9:
            v = s(r.choice([1, 2.5, True, None, 'str']), None)
        elif c == 10:
            v = raw(f'!call:simrec.f_t{ti}c{uid} {{x: {emit.emit(g.scalar())}}}')
        elif c == 11 and depth_budget > 0 and dirpath is not None:
            sub = r.choice(['inc', 'sub', '.'])
            name = f'i{uid}.yaml' if sub == '.' else f'{sub}/i{uid}.yaml'
            tdir = dirpath if sub == '.' else f'{dirpath}/{sub}'
            files[f'{tdir}/i{uid}.yaml'] = emit.emit_doc(_doc(g, r, ti, files, tdir, depth_budget - 1, allow_fail))
            v = raw(f'!include {name}')
        elif c == 12:
            name = f'shared_t{ti}_{uid}.yaml'
            files[f'{CWD}/{name}'] = emit.emit_doc(m({'cw': g.scalar(), 'l': q([g.scalar(), g.scalar()])}))
            v = raw(f'!include {name}')
        elif c == 13 and depth_budget > 0 and dirpath is not None:
            name = f'rec{uid}.yaml'
            files[f'{dirpath}/{name}'] = emit.emit_doc(m({'r1': g.scalar(), 'r2': g.value(1)}))
            v = raw(f'!rec {name}')
        elif c == 23 and dirpath is not None and depth_budget == 2:
            # a long chain of includes (each file includes the next one)
            depth = r.choice([12, 20, 20])
            for lvl in range(depth):
                nxt = f'!include chain{uid}_{lvl + 1}.yaml' if lvl + 1 < depth else emit.emit(g.scalar())
                files[f'{dirpath}/chain{uid}_{lvl}.yaml'] = f'{{lvl{lvl}: {nxt}}}\n'
            v = raw(f'!include chain{uid}_0.yaml')
        elif c == 14:
            v = raw(r.choice(['!path:parent [data, f.txt]', '!path:file [x]', '!path:parent(1) [y]', '!path [rel, p]']))
        elif c == 15:
            v = raw(f'!xref {r.choice([kk for kk in keys if kk != k] or ["nowhere"])}')
        elif c in (16, 20):
            v = raw(f'!unsafe {emit.emit(g.value(1))}')
        elif c in (21, 22):
            # a module imported for the first time while (maybe) another thread is in the middle of importing it
            mod = r.choice(['simslow_m1', 'simslow_m2', 'simslowpkg.sub1', 'simslowpkg.sub2'])
            v = raw(r.choice([f'!call:{mod}.target {{x: {uid}}}', f'!import {mod}.value', f'!bind:{mod}.target [t{ti}]']))
        elif c == 19:
            other = r.choice([kk for kk in keys if kk != k] or ['nowhere'])
            v = raw(f'!call:simrec.f_t{ti}x{uid} {{x: !xref {other}, y: [!xref {other}]}}')
        elif c == 18:
            # byte-identical annotations in the files of all threads (anything keyed by the annotation text is shared)
            v = raw(r.choice(["!metadata{{'origin': 'common', 'n': 1}} " + emit.emit(g.scalar()),
                              "!metadata{{'origin': 'common', 'priority': 1}} " + emit.emit(g.scalar()),
                              "!required{{'why': 'shared text'}}" if False else "!null{{'why': 'shared text'}}",
                              "!xref{{'hop': 1}} " + r.choice([kk for kk in keys if kk != k] or ['nowhere'])]))
        elif c == 17 and allow_fail:
            v = raw(r.choice([f'!call:simrec.raiser [t{ti}]', '!required', '!include missing_file.yaml',
                              # a key that would shadow a method of the mapping node: refused while parsing
                              '{items: 1, a: 2}', '{a: 1, keys: [1]}', '{update: x}',
                              f'!unsafe !call:simrec.f_t{ti}u []', '!xref nowhere.at.all',
                              # a safe call whose argument is unsafe: the error text lists the chain of dependencies being evaluated
                              f'!call:simrec.f_t{ti}w {{a: {{b: [1, !unsafe t{ti}_arg{uid}]}}}}',
                              f'!call:simrec.f_t{ti}w {{a: {{b: [1, !unsafe t{ti}_arg{uid}]}}}}',
                              f'!bind:simrec.f_t{ti}w {{a: !unsafe {{k: t{ti}_arg{uid}}}}}']))
        else:
            v = g.value(1)
        items.append([k, v])
    return m(items)


def _program(r, ti, n_ops):
    root = f'/t{ti}'
    files = {}
    g = gen.DocGen(r, prefix=f't{ti}_', p_tag=0.12, max_depth=3)
    ops = []
    for oi in range(n_ops):
        n_src = r.randrange(1, 4)
        sources = []
        api = r.choice(['builder', 'builder', 'multi', 'config_build', 'cmdline'])
        for si in range(n_src):
            kind = r.choice(['file', 'file', 'text', 'text_fn', 'stream']) if api != 'cmdline' else 'file'    # command-line arguments name files
            ndocs = 1 if r.random() < 0.7 else 2
            allow_fail = r.random() < 0.35
            docs = [_doc(g, r, ti, files, None if kind == 'text' else root, allow_fail=allow_fail) for _ in range(ndocs)]
            text = emit.emit_stream(docs) if ndocs > 1 else emit.emit_doc(docs[0])
            fault = None
            if r.random() < 0.12:
                fault = 'malformed'
                text = text + '---\n{zz: [1, 2\n'
            elif r.random() < 0.06:
                fault = 'merge_error'
                text = '{a: [1, 2]}\n---\n{a: {5: 1}}\n'
            src = {'kind': kind, 'safe': r.choice([None, None, True, False]) if api != 'cmdline' else None, 'fault': fault}
            if kind == 'file':
                path = f'{root}/m{oi}_{si}.yaml'
                files[path] = text
                src['path'] = path
                if r.random() < 0.08:
                    src['path'] = f'{root}/does_not_exist_{oi}_{si}.yaml'
                    src['raw_yaml'] = False
                    src['fault'] = 'missing_source'
            else:
                src['text'] = text
                if kind != 'text':
                    src['filename'] = f'{root}/virt{oi}_{si}.yaml'
            sources.append(src)
        ops.append({'sources': sources, 'eval': r.random() < 0.75, 'continue': r.random() < 0.3,
                    'api': api, 'ctxsym': r.random() < 0.2})      # ctxsym: evaluated with an own context whose symbol table the thread fills in itself
    return {'ti': ti, 'files': files, 'ops': ops}


FOCI = [['scalar_types'], ['default_filename', 'default_safe_flag', 'add_source'], ['api_entry', 'rethrow_point'],
        ['node_init', 'loader_convert'], ['default_filename', 'default_safe_flag', 'node_init'], ['current_stage', 'add_source'],
        ['scalar_types', 'node_init'], []]


def _sched_spec(r):
    spec = _sched_spec0(r)
    spec['ext_p'] = r.choice([0, 0, 0.2, 0.6])     # extra pre-emption at simulated I/O / recorder / module-import points
    spec['novel_p'] = r.choice([0, 0, 0.01, 0.05, 0.2])    # ... and at lines that run for the first time in the process (lazy initialisation)
    return spec


def _sched_spec0(r):
    c = r.randrange(12)
    seed = r.getrandbits(32)
    focus = r.choice(FOCI)
    if c < 4:
        return {'policy': 'uniform', 'p': r.choice([0.0005, 0.002, 0.01, 0.05]), 'seed': seed, 'focus': focus}
    if c < 8:
        return {'policy': 'crit', 'q': r.choice([0.003, 0.02, 0.1, 0.4]), 'p': r.choice([0.0, 0.0005, 0.005]), 'seed': seed,
                'focus': focus or ['scalar_types']}
    spec = {'policy': 'pct', 'd': r.choice([1, 2, 3, 4]), 'span': r.choice([3000, 20000, 60000]), 'seed': seed, 'focus': focus}
    if focus and r.random() < 0.7:
        spec['focus_cps'] = sorted(r.randrange(1, r.choice([30, 300, 3000])) for _ in range(r.randrange(1, 4)))
    return spec


# (document every thread but one builds, the same document with one entry made invalid): the threads walk the same code
# path, so the late one meets no line that is new to the process before it reaches the point where the early one was parked
_COLD_PAIRS = [
    ('first: {b: 1, a: 2}\nsecond: 1\n', 'first: {items: 1, a: 2}\nsecond: 1\n'),
    ('first: 1\nsecond: {a: 2}\n', 'items: 1\nsecond: {a: 2}\n'),       # (the top-level mapping is the first one to be filled)
    ('first: {x: 1}\n', 'keys: {x: 1}\n'),
    ('first: !xref second\nsecond: 1\n', 'first: !xref nowhere\nsecond: 1\n'),
    ('first: !call:simrec.f_cold {x: 1}\n', 'first: !call:simrec.raiser [cold]\n'),
    ('first: [1, 2]\nsecond: {a: 1}\n', 'first: [1, 2\nsecond: {a: 1}\n'),
    ('first: !weak 5\nsecond: 1\n', 'first: !required\nsecond: 1\n'),
    ('first: !call:simrec.f_cold {x: 1}\n', 'first: !unsafe !call:simrec.f_cold {x: 1}\n'),
    ('first: !include cold_inc.yaml\n', 'first: !include cold_missing.yaml\n'),
]


def _program_cold(r, ti, failing, pair):
    """The first thing a thread ever does in a fresh process: one tiny document (for one of the threads a failing one, the
    offending entry first). Lazily initialised process-wide state is being written while the other thread arrives."""
    src = {'kind': 'text', 'safe': None, 'fault': 'cold_failing_input' if failing else None, 'text': pair[1] if failing else pair[0]}
    return {'ti': ti, 'files': {f'{CWD}/cold_inc.yaml': '{x: 1}\n'}, 'ops': [{'sources': [src], 'eval': True, 'continue': False, 'api': 'builder'}]}


def generate(r, tier, index):
    k = 2 if r.random() < 0.7 else 3
    n_s = TIERS[tier]['scheds']
    if r.random() < 0.2:
        # cold start: tiny first operations, pre-emption mostly at lines that run for the first time
        bad = r.randrange(k)
        pair = r.choice(_COLD_PAIRS)
        progs = [_program_cold(r, ti, ti == bad, pair) for ti in range(k)]
        scheds = []
        for _ in range(n_s):
            spec = {'policy': 'uniform', 'p': r.choice([0.0, 0.0, 0.001]), 'seed': r.getrandbits(32), 'focus': None, 'novel_p': r.choice([0.2, 0.35, 0.5])}
            scheds.append(spec)
        return {'programs': progs, 'scheds': scheds, 'warm': False, 'home': '/home/u', 'cold': True}
    progs = [_program(r, ti, r.randrange(1, 4)) for ti in range(k)]
    sc = {'programs': progs, 'scheds': [_sched_spec(r) for _ in range(n_s)],
          'warm': r.random() < 0.25, 'home': '/home/u'}
    # (drawn last: the scenarios of every seed are otherwise what they were before this kind existed)
    if r.random() < 0.15:
        # the interpreter turns SyntaxWarning into an error (-W error::SyntaxWarning) and every thread evaluates code the
        # compiler warns about: whether a thread's build fails must not depend on what the other threads are compiling
        sc['warn'] = 'error'
        if r.random() < 0.6:
            # short programs: the threads reach the compilation of their code at about the same time
            for p in progs:
                p['files'] = {}
                p['ops'] = [{'sources': [{'kind': 'text', 'safe': None, 'fault': None, 'text': '{a: %d, b: [t%d_x, 2]}\n' % (p['ti'], p['ti'])}],
                             'eval': True, 'continue': False, 'api': 'builder', 'ctxsym': False} for _ in range(r.randrange(1, 3))]
        for p in progs:
            for op in p['ops']:
                op['weval'] = r.choice(['len("\\d") + 1', '(1 is 1, "\\w")[0]', '"\\q"'])
        for si in range(len(sc['scheds'])):
            # the window is a few lines of the function that compiles the code: switch there, in every thread
            if r.random() < 0.7:
                sc['scheds'][si] = {'policy': 'crit', 'q': r.choice([0.05, 0.15, 0.3]), 'p': r.choice([0.0, 0.0005]),
                                    'seed': r.getrandbits(32), 'focus': ['eval_node'], 'ext_p': 0, 'novel_p': 0}
            else:
                sc['scheds'][si]['novel_p'] = r.choice([0.05, 0.2, 0.35])
    return sc


# ---------------------------------------------------------------------------------------------
# execution (inside forked children)

class _Stop(Exception):
    pass


def _add_source(b, src):
    import io
    kind = src['kind']
    kw = {}
    if src.get('safe') is not None:
        kw['safe'] = src['safe']
    if kind == 'file':
        if 'raw_yaml' in src:
            kw['raw_yaml'] = src['raw_yaml']
        b.add_source(src['path'], **kw)
    elif kind == 'text':
        b.add_source(src['text'], raw_yaml=True, **kw)
    elif kind == 'text_fn':
        b.add_source(src['text'], raw_yaml=True, filename=src['filename'], **kw)
    else:
        b.add_source(io.StringIO(src['text']), filename=src['filename'], **kw)


def _client(prog, out):
    import awesomeyaml
    from awesomeyaml import Builder, Config
    tname = f'client-{prog["slot"]}'

    def run():
        for k, op in enumerate(prog['ops']):
            sched.begin_op(f't{prog["ti"]}.op{k}')
            rec = {'op': k}
            log_start = len(recorder.LOG)
            try:
                root = None
                if op['api'] in ('config_build', 'cmdline') and all(sr['kind'] in ('file', 'text') and sr.get('safe') is None for sr in op['sources']):
                    srcs = [sr['path'] if sr['kind'] == 'file' else sr['text'] for sr in op['sources']]
                    raws = [sr.get('raw_yaml') if sr['kind'] == 'file' else True for sr in op['sources']]
                    if op['api'] == 'cmdline' and all(sr['kind'] == 'file' for sr in op['sources']):
                        cfg = Config.build_from_cmdline(*srcs)      # the command-line entry point: file arguments
                    else:
                        cfg = Config.build(*srcs, raw_yaml=raws)
                    rec['cfg'] = observe.native(cfg)
                    root = getattr(cfg, '_source', None)
                    if root is not None:
                        rec['tree'] = observe.tree_records(root)
                else:
                    b = Builder()
                    for s_i, src in enumerate(op['sources']):
                        try:
                            _add_source(b, src)
                        except Exception as e:
                            rec.setdefault('src_errors', []).append([s_i, observe.exc_signature(e)])
                            if not op.get('continue'):
                                raise _Stop()
                    rec['current_file_after'] = b.get_current_file()
                    if op.get('ctxsym') and op['eval']:
                        b.add_source('{ctxprobe: !eval "tsym"}\n', raw_yaml=True)
                    if op.get('weval') and op['eval']:
                        b.add_source("{wprobe: !eval '" + op['weval'] + "'}\n", raw_yaml=True)
                    root = b.build()
                    if root is not None:
                        rec['tree'] = observe.tree_records(root)
                        try:
                            pickle.loads(pickle.dumps(root))
                            rec['pickle'] = 'ok'
                        except Exception as e:
                            rec['pickle'] = type(e).__name__ + ': ' + observe.norm_text(e)[:200]
                        try:
                            copy.deepcopy(root)
                            rec['deepcopy'] = 'ok'
                        except Exception as e:
                            rec['deepcopy'] = type(e).__name__ + ': ' + observe.norm_text(e)[:200]
                        try:
                            rec['dump'] = core.digest(awesomeyaml.yaml.dump(root))
                        except Exception as e:
                            rec['dump'] = type(e).__name__ + ': ' + observe.norm_text(e)[:200]
                        if op['eval']:
                            if op.get('ctxsym'):
                                ctx = awesomeyaml.EvalContext()
                                ctx.get_eval_symbols()['tsym'] = f'symbol-of-thread-program-{prog["ti"]}'
                                cfg = Config(root, eval_ctx=ctx)
                            else:
                                cfg = Config(root)
                            rec['cfg'] = observe.native(cfg)
            except _Stop:
                pass
            except Exception as e:
                rec['exc'] = observe.exc_signature(e)
            rec['calls'] = [e[1:] for e in recorder.LOG[log_start:] if e[0] == tname and not e[1].startswith('module-exec')]   # who happens to import a module first is not an observation
            sched.end_op()
            out.append(rec)
    return run


def _run(scenario, which, spec):
    """Child: run the programs listed in ``which`` under ``spec``; return observations."""
    files = {}
    for p in scenario['programs']:
        files.update(p['files'])
    fs = simfs.SimFS(files, cwd=CWD, home=scenario.get('home', '/home/u')).install()
    recorder.install()
    recorder.install_slow_modules()
    if scenario.get('warn') == 'error':
        import warnings
        warnings.simplefilter('error', SyntaxWarning)
    if scenario.get('warm'):
        from awesomeyaml.nodes.scalar import ConfigScalar
        for t in (int, float, bool, str, type(None)):
            ConfigScalar(t)
    progs = []
    for slot, i in enumerate(which):
        p = dict(scenario['programs'][i])
        p['slot'] = slot
        progs.append(p)
    outs = [[] for _ in progs]
    sc = sched.Scheduler(spec)
    sc.run([_client(p, o) for p, o in zip(progs, outs)])
    crit_switch = sum(1 for k in sc.overlaps)
    return {'outs': outs, 'switches': len(sc.switches), 'gsteps': sc.gstep,
            'lines': sum(t.lines for t in sc.threads), 'overlaps': sc.overlaps,
            'idig': sc.interleaving_digest(), 'explicit': sc.explicit_spec(), 'divergence': sc.divergence,
            'open_log': len(fs.log)}


def _strip(outs):
    """Observations compared with the twin (line counts are scheduling-independent too, keep them)."""
    return outs


def _first_diff(a, b, path=''):
    if type(a) != type(b):
        return path, a, b
    if isinstance(a, dict):
        for k in sorted(set(a) | set(b)):
            if k not in a or k not in b:
                return f'{path}.{k}', a.get(k, '<absent>'), b.get(k, '<absent>')
            d = _first_diff(a[k], b[k], f'{path}.{k}')
            if d:
                return d
        return None
    if isinstance(a, list):
        if len(a) != len(b):
            for i in range(min(len(a), len(b))):
                d = _first_diff(a[i], b[i], f'{path}[{i}]')
                if d:
                    return d
            return f'{path}.len', len(a), len(b)
        for i in range(len(a)):
            d = _first_diff(a[i], b[i], f'{path}[{i}]')
            if d:
                return d
        return None
    if a != b:
        return path, a, b
    return None


def _classify(path):
    import re
    p = re.sub(r'\[\d+\]', '', path)
    parts = [x for x in p.split('.') if x]
    if not parts:
        return 'isolation.other', 'top'
    head = parts[0]
    field = parts[1] if len(parts) > 1 else ''
    if head == 'tree':
        return 'isolation.node', field
    if head in ('exc', 'src_errors'):
        return 'isolation.error', parts[-1]
    if head in ('pickle', 'deepcopy', 'dump'):
        return 'isolation.pickle', head
    if head == 'cfg':
        return 'isolation.config', 'cfg'
    if head == 'calls':
        return 'isolation.calls', 'calls'
    return 'isolation.other', head


def execute(scenario):
    res = core.ok_result()
    st = res['stats']
    k = len(scenario['programs'])
    timeout = 60.0
    twins = []
    for i in range(k):
        t = core.fork_call(_run, (scenario, [i], {'policy': 'serial'}), timeout=timeout)
        if t['status'] != 'ok':
            res['harness'] = f'twin {i}: {t["status"]} {t.get("error", t.get("signal", ""))}'
            return res
        twins.append(t['value']['outs'][0])
    outcomes = st.setdefault('outcomes', {})
    faults = st.setdefault('faults', {})
    for tw in twins:
        for rec in tw:
            if 'exc' in rec:
                outcomes['op_failed:' + rec['exc']['type']] = outcomes.get('op_failed:' + rec['exc']['type'], 0) + 1
            elif rec.get('src_errors'):
                outcomes['op_partial'] = outcomes.get('op_partial', 0) + 1
            else:
                outcomes['op_ok'] = outcomes.get('op_ok', 0) + 1
            for _, sig in rec.get('src_errors', []):
                faults['failing_source:' + sig['type']] = faults.get('failing_source:' + sig['type'], 0) + 1
    st['scenarios'] = 1
    pdig = core.digest(scenario['programs'])
    idigs = set()
    for si, spec in enumerate(scenario['scheds']):
        c = core.fork_call(_run, (scenario, list(range(k)), spec), timeout=timeout)
        st['runs'] = st.get('runs', 0) + 1
        if c['status'] != 'ok':
            res['harness'] = f'concurrent run sched#{si}: {c["status"]} {c.get("error", c.get("signal", ""))}'
            return res
        v = c['value']
        st['switches'] = st.get('switches', 0) + v['switches']
        st['lines'] = st.get('lines', 0) + v['lines']
        core.merge_stats(st.setdefault('overlaps', {}), v['overlaps'])
        if v['divergence']:
            st['replay_divergence'] = st.get('replay_divergence', 0) + v['divergence']
        if v['idig'] not in idigs:
            idigs.add(v['idig'])
            if v['overlaps']:
                res['keys'].append(pdig + ':' + v['idig'])
        for i in range(k):
            d = _first_diff(v['outs'][i], twins[i])
            if d:
                path, got, want = d
                rule, field = _classify(path.split('.', 1)[1] if path.startswith('[') else path)
                msg = (f'thread {i} (program t{scenario["programs"][i]["ti"]}) differs from its isolated twin at {path}: '
                       f'concurrent={got!r} isolated={want!r}; schedule={spec.get("policy")} switches={v["switches"]}')
                res['violations'].append(core.violation(rule, msg, field=field))
                res['failing'] = (spec, v['explicit'])
                break
        if res['violations']:
            break
    st['distinct_interleavings'] = len(idigs)
    if res['sample'] is None:
        p0 = scenario['programs'][0]
        res['sample'] = {'threads': k, 'program0_ops': p0['ops'][:1], 'program0_files': dict(list(p0['files'].items())[:2]),
                         'schedule0': scenario['scheds'][0] if scenario['scheds'] else None,
                         'twin0_first_op': {kk: (vv if kk != 'tree' else vv[:3]) for kk, vv in twins[0][0].items()} if twins[0] else None}
    if res['violations'] and 'failing' in res:
        spec, explicit = res.pop('failing')
        scenario['scheds'] = [spec]
        scenario['explicit_sched'] = explicit
    return res


# ---------------------------------------------------------------------------------------------
# shrinking

def shrink(sc):
    # 1. one schedule only
    if len(sc['scheds']) > 1:
        for spec in sc['scheds']:
            c = dict(sc)
            c['scheds'] = [spec]
            yield c
    # 2. drop switches from an explicit schedule (halves first, then singles)
    if len(sc['scheds']) == 1 and sc['scheds'][0].get('policy') == 'explicit':
        sw = sc['scheds'][0]['switches']
        n = len(sw)
        if n > 2:
            step = max(1, n // 2)
            while step >= 1:
                for i in range(1, n, step):
                    c = copy.deepcopy(sc)
                    del c['scheds'][0]['switches'][i:i + step]
                    yield c
                if step == 1:
                    break
                step //= 2
    # 3. drop threads (keep >= 2) - only with seeded schedules
    if len(sc['programs']) > 2 and sc['scheds'][0].get('policy') != 'explicit':
        for i in range(len(sc['programs'])):
            c = copy.deepcopy(sc)
            del c['programs'][i]
            yield c
    # 4. drop ops / sources (schedule must be seeded, explicit step numbers would shift)
    if sc['scheds'][0].get('policy') != 'explicit':
        for pi, p in enumerate(sc['programs']):
            for oi in range(len(p['ops'])):
                if len(p['ops']) > 1:
                    c = copy.deepcopy(sc)
                    del c['programs'][pi]['ops'][oi]
                    yield c
                for si in range(len(p['ops'][oi]['sources'])):
                    if len(p['ops'][oi]['sources']) > 1:
                        c = copy.deepcopy(sc)
                        del c['programs'][pi]['ops'][oi]['sources'][si]
                        yield c


    # 4b. drop files nothing refers to, then single keys of the remaining documents (flow mappings, text level)
    if sc['scheds'][0].get('policy') != 'explicit':
        from .c07 import _drop_items
        for pi, p in enumerate(sc['programs']):
            texts = [sr.get('text', '') + sr.get('path', '') for op in p['ops'] for sr in op['sources']] + list(p['files'].values())
            for fn in list(p['files']):
                base = fn.rsplit('/', 1)[1]
                if not any(base in t for t in texts if t is not p['files'][fn]):
                    c = copy.deepcopy(sc)
                    del c['programs'][pi]['files'][fn]
                    yield c
            for fn, txt in p['files'].items():
                if '---' in txt:
                    continue
                for cand in _drop_items(txt):
                    c = copy.deepcopy(sc)
                    c['programs'][pi]['files'][fn] = cand
                    yield c
            for oi, op in enumerate(p['ops']):
                for si, sr in enumerate(op['sources']):
                    if 'text' in sr and '---' not in sr['text']:
                        for cand in _drop_items(sr['text']):
                            c = copy.deepcopy(sc)
                            c['programs'][pi]['ops'][oi]['sources'][si]['text'] = cand
                            yield c
    # 5. last: switch from the seeded schedule to the recorded explicit one (then stage 2 applies)
    if sc['scheds'][0].get('policy') != 'explicit' and sc.get('explicit_sched'):
        c = copy.deepcopy(sc)
        c['scheds'] = [c.pop('explicit_sched')]
        yield c


def evidence_extra(stats):
    return {'evaluations': int(stats.get('runs', 0)), 'scenarios': int(stats.get('scenarios', 0)),
            'evaluations_note': 'one evaluation = one concurrent execution of a scenario under one schedule (each compared with the isolated twins)'}


def reach_problems(stats, tier):
    probs = []
    ov = stats.get('overlaps', {})
    need = ['default_filename|node_init', 'default_safe_flag|node_init', 'api_entry|api_entry', 'add_source|add_source']
    for n in need:
        if not ov.get(n):
            probs.append(f'overlap probe {n} never fired')
    return probs
