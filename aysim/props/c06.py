"""C06 - streams are flattened in order: sources, multi-doc files and !include agree; lookup;
missing files; !path reference points.

The file system is the subject of the property, so everything runs on aysim.simfs.  A scenario is
a document sequence, a set of *delivery plans* (ways of splitting the sequence over separate
sources / multi-document files / include lists / per-document includes / nested include chains,
with files placed relative to the including file, in the cwd, in both with different content, at
absolute or ~ paths) and *fault plans* (files missing, open/read errors on the k-th open, a failing
source followed by further use of the same builder).

Oracle: the library is compared with itself across I/O routes (no merge semantics re-implemented);
a first-existing-of-lookup-dirs model decides which copy must be read; under an injected fault the
build must fail or give exactly the fault-free result; !path values are compared with the location
computed from the file each node was physically written in.
"""
import re
import copy
import posixpath

from .. import core, sched, simfs, recorder, observe, emit, gen
from ..emit import m, q, s, raw

ID = 'C06'
RULE = ('a case = (document sequence over the merge-control vocabulary with !path nodes, delivery plan, directory layout, fault plan); '
        'each scenario runs the reference route (every document a separate file source) and several generated plans and fault plans, '
        'each in a fresh forked process on the simulated file system; non-trivial iff the plan contains at least one include or '
        'multi-document file, or a fault fired; distinct = distinct digest of (documents, plan, layout, faults)')
ASSUMPTIONS = [
    'cwd and HOME are fixed during one build (the statement promises nothing for a cwd change between add_source and evaluation)',
    'only the included-name lookup is modelled (first existing of [directory of the including file, cwd]); merge semantics are not re-implemented: routes are compared with each other',
    'a leading ~ in an evaluated !path value is expanded with the simulated HOME before comparison (path nodes document that they do not expand it)',
]
TIERS = {
    'quick': {'runs': 900, 'wall_cap': 75, 'chunk': 8, 'min_budget': 50, 'min_each': 25},
    'thorough': {'runs': 20000, 'wall_cap': 900, 'chunk': 16, 'min_budget': 200, 'min_each': 60},
}
CWD = '/w'
HOME = '/home/u'
# ways of placing "INC" (an include of all documents) below a key; path = where the merged content must appear
UNDER_SHAPES = ['key', 'deep', 'merge_anc', 'del_anc', 'force_anc', 'weak_anc', 'in_list', 'merge_list', 'multidoc', 'deep_multidoc',
                'rec', 'rec_deep', 'rec', 'call_arg', 'call_arg_deep']
_UNDER = {
    'key': ('{wrapped: INC}', ['wrapped']),
    'deep': ('{outer: {mid: {wrapped: INC}}}', ['outer', 'mid', 'wrapped']),
    'merge_anc': ('{outer: !merge {wrapped: INC}}', ['outer', 'wrapped']),
    'del_anc': ('{outer: !del {wrapped: INC, other: 1}}', ['outer', 'wrapped']),
    'force_anc': ('{outer: !force {mid: {wrapped: INC}}}', ['outer', 'mid', 'wrapped']),
    'weak_anc': ('{outer: !weak {wrapped: INC}}', ['outer', 'wrapped']),
    'in_list': ('{lst: [0, INC]}', ['lst', 1]),
    'merge_list': ('{lst: !merge [INC, 1]}', ['lst', 0]),
    'multidoc': ('{wrapped: INC}', ['wrapped']),
    'deep_multidoc': ('{outer: !merge {mid: [INC]}}', ['outer', 'mid', 0]),
    # below the arguments of a call (the target returns what it received)
    'call_arg': ('{fn: !call:simrec.echo {wrapped: INC}}', ['fn', 'wrapped']),
    'call_arg_deep': ('{fn: !call:simrec.echo {a: {wrapped: INC}, b: 1}}', ['fn', 'a', 'wrapped']),
    # the lazy include: files are read (and looked up) when the node is evaluated
    'rec': ('{wrapped: REC}', ['wrapped']),
    'rec_deep': ('{outer: {mid: {wrapped: REC}}}', ['outer', 'mid', 'wrapped']),   # (!rec inside a list is not supported by the library)
}
PATH_FORMS = ['file', 'parent', 'parent(0)', 'parent(1)', 'parent(2)', 'parent(5)', 'cwd', 'abs(/opt/data)', '']


# ---------------------------------------------------------------------------------------------
# generation

def _gen_docs(r, n):
    g = gen.DocGen(r, prefix='', p_tag=r.choice([0.0, 0.1, 0.25]), max_depth=3)
    docs = []
    ptoks = {}
    for i in range(n):
        g.prefix = f'd{i}_'
        d = g.mapping(0, min_keys=1, max_keys=4)
        # shared list-valued / nested keys so that lists are overridden across file boundaries
        if r.random() < 0.6:
            d['items'].append(['lst', emit.q([g.scalar() for _ in range(r.randrange(0, 4))], r.choice([None, None, None, '!merge', '!del']))])
        if r.random() < 0.4:
            d['items'].append(['deep', emit.m({'l2': emit.q([g.scalar() for _ in range(r.randrange(1, 4))]), 'k': g.scalar()})])
        # !path nodes under keys no other document writes
        for j in range(r.randrange(0, 3)):
            form = r.choice(PATH_FORMS)
            tok = f'ptok{i}x{j}'
            ptoks[tok] = {'doc': i, 'form': form}
            tag = '!path' + (':' + form if form else '')
            node = raw(f'{tag} [{tok}]')
            if i > 0 and form and '(' not in form and r.random() < 0.25:
                # ... except here: the previous document has a plain list under the key, and the !path is merged into it
                # element-wise ({{'delete': False}}); it still denotes a place next to the file *it* was written in
                node = raw(f"{tag}{{{{'delete': False}}}} [{tok}]")
                docs[i - 1]['items'].append([f'p{i}_{j}', emit.q([emit.s('placeholder')])])
                d['items'].append([f'p{i}_{j}', node])
            elif r.random() < 0.3:
                d['items'].append([f'pbox{i}', emit.m({f'in{j}': node})])
            else:
                d['items'].append([f'p{i}_{j}', node])
        if r.random() < 0.08:
            d['tag'] = r.choice(['!merge', '!force', '!weak'])
        if i > 0:
            # operators acting on what earlier documents built (they run in the pre-merge step of whichever builder flattens them)
            c = r.random()
            if c < 0.12:
                d['items'].append(['lst', emit.q([g.scalar() for _ in range(r.randrange(1, 3))], r.choice(['!append', '!extend']))])
            elif c < 0.18:
                d['items'].append([r.choice(['deep', 'lst', 'a']), raw('!clear ')])
            elif c < 0.24:
                d['items'].append(['moved', raw('!prev ' + r.choice(['lst', 'deep', 'a', 'deep.l2']))])
            elif c < 0.32:
                d['items'].append([r.choice(['a', 'b', 'deep']), emit.m({r.choice(['x', 'k', 'l2']): g.scalar()}, r.choice(['!notnew', '!new']))])
        docs.append(d)
    return docs, ptoks


_DIRS = ['/w/conf', '/w/conf/sub', '/w', '/other/place', '/home/u/cfg']


def _name_for(r, target, including_dir):
    """How an include names ``target`` (absolute path) from a file in ``including_dir`` (or None)."""
    forms = ['abs']
    if including_dir is not None:
        forms += ['rel', 'rel', 'rel']
    if target.startswith(CWD + '/'):
        forms += ['cwd']
    if target.startswith(HOME + '/'):
        forms += ['home']
    f = r.choice(forms)
    if f == 'rel':
        return posixpath.relpath(target, including_dir), 'rel'
    if f == 'cwd':
        return posixpath.relpath(target, CWD), 'cwd'
    if f == 'home':
        return '~/' + posixpath.relpath(target, HOME), 'home'
    return target, 'abs'


def _gen_plan(r, n, kind=None):
    """A delivery plan: list of deliveries, each covering a consecutive block of documents."""
    deliveries = []
    i = 0
    k = 0
    while i < n:
        size = r.randrange(1, n - i + 1) if r.random() < 0.6 else 1
        block = list(range(i, i + size))
        i += size
        kinds = ['file', 'text_fn', 'stream', 'multidoc', 'include_list', 'include_docs', 'nested', 'nested3']
        dk = kind or r.choice(kinds)
        if size > 1 and dk in ('file', 'text_fn', 'stream'):
            dk = r.choice(['multidoc', 'include_list', 'include_docs', 'nested'])
        d = {'kind': dk, 'docs': block, 'id': k, 'dir': r.choice(_DIRS), 'name_how': r.choice(['abs', 'abs', 'rel_cwd', 'home']),
             'file_dirs': [r.choice(['same', 'same', 'sub', 'up', 'cwd_only', 'both', 'elsewhere', 'home', 'custom']) for _ in block],
             'mid_dir': r.choice(_DIRS), 'seed': r.getrandbits(30)}
        deliveries.append(d)
        k += 1
    return deliveries


def generate(r, tier, index):
    n = r.choice([1, 2, 2, 3, 3, 4])
    docs, ptoks = _gen_docs(r, n)
    same_as = {}
    if n >= 2 and r.random() < 0.3:
        # the same document (for includes: the very same file, possibly spelled differently) delivered a second time
        cands = [j for j in range(n) if not any(v['doc'] == j for v in ptoks.values())]
        if cands:
            j = r.choice(cands[:-1] or cands)
            docs.append(copy.deepcopy(docs[j]))
            same_as[str(n)] = j
            n += 1
    if r.random() < 0.12:
        docs.insert(r.randrange(0, n + 1), {'k': 'empty'})       # an empty document somewhere in the sequence
        pos = docs.index({'k': 'empty'})
        ptoks = {k: dict(v, doc=v['doc'] + (1 if v['doc'] >= pos else 0)) for k, v in ptoks.items()}
        same_as = {str(int(a) + (1 if int(a) >= pos else 0)): (b + (1 if b >= pos else 0)) for a, b in same_as.items()}
        n += 1
    plans = [_gen_plan(r, n) for _ in range(3)]
    if r.random() < 0.5:
        plans.append(_gen_plan(r, n, kind=r.choice(['include_list', 'include_docs', 'multidoc', 'nested'])))
    faults = []
    for _ in range(r.randrange(1, 4)):
        c = r.randrange(6)
        if c == 0:
            faults.append({'kind': 'missing', 'plan': r.randrange(len(plans)), 'pick': r.getrandbits(16), 'count': r.randrange(1, 3)})
        elif c == 1:
            faults.append({'kind': 'io', 'plan': r.randrange(len(plans)), 'nth': r.randrange(0, 8),
                           'err': r.choice(['EACCES', 'EISDIR', 'EIO_read', 'undecodable', 'ENAMETOOLONG', 'EINVAL', 'EMFILE'])})
        elif c == 2:
            faults.append({'kind': 'failed_then_continue', 'plan': r.randrange(len(plans)),
                           'err': r.choice(['EIO_read', 'undecodable', 'EACCES', 'EISDIR', 'ENOENT', 'parse_file', 'parse_text_fn', 'parse_stream_fn',
                                            'parse_second_doc'])})
        elif c == 3:
            faults.append({'kind': 'replaced', 'plan': r.randrange(len(plans)), 'nth': r.randrange(0, 6)})
        else:
            faults.append({'kind': 'missing', 'plan': r.randrange(len(plans)), 'pick': r.getrandbits(16), 'count': 1})
    return {'docs': docs, 'ptoks': ptoks, 'plans': plans, 'faults': faults, 'same_as': same_as, 'under_key': r.choice(UNDER_SHAPES) if r.random() < 0.45 else None}


# ---------------------------------------------------------------------------------------------
# materialising a plan: files + add_source calls + physical location of every document

def _src_name(path, how):
    if how == 'rel_cwd' and path.startswith(CWD + '/'):
        return posixpath.relpath(path, CWD)
    if how == 'home' and path.startswith(HOME + '/'):
        return '~/' + posixpath.relpath(path, HOME)
    return path


def _place(base_dir, how, fname):
    if how == 'sub':
        return f'{base_dir}/inc/{fname}', None
    if how == 'up':
        parent = posixpath.dirname(base_dir) or '/'
        return posixpath.join(parent, fname), None
    if how == 'cwd_only':
        return f'{CWD}/{fname}', None
    if how == 'both':
        return f'{base_dir}/{fname}', f'{CWD}/{fname}'
    if how == 'elsewhere':
        return f'/srv/data/{fname}', None
    if how == 'custom':
        return f'{EXTRA_DIR}/{fname}', None
    if how == 'home':
        return f'{HOME}/inc/{fname}', None
    return f'{base_dir}/{fname}', None


def materialise(sc, plan, wrap_key=None):
    """-> dict(files, calls, where, includes)

    where[i]    = absolute path of the file document i physically lives in (None: text without file name)
    includes    = list of {'from': abs path or None, 'name': as written, 'target': abs path expected to be read}
    """
    import random
    docs = sc['docs']
    files = {}
    calls = []
    where = {}
    includes = []
    decoys = {}
    if wrap_key is not None:
        fdirs = (plan[0]['file_dirs'] * len(docs))[:len(docs)]
        if wrap_key.startswith('rec'):
            fdirs = ['elsewhere' if h == 'home' else ('same' if h == 'custom' else h) for h in fdirs]   # !rec neither expands ~ nor uses the caller's Builder subclass
        plan = [{'kind': 'include_list', 'docs': list(range(len(docs))), 'id': 0, 'dir': plan[0]['dir'], 'name_how': plan[0]['name_how'],
                 'file_dirs': fdirs, 'mid_dir': plan[0]['mid_dir'], 'seed': plan[0]['seed']}]
    for d in plan:
        r = random.Random(d['seed'])
        kind = d['kind']
        base = d['dir']
        tag = f'p{d["id"]}'
        if kind == 'file':
            i = d['docs'][0]
            path = f'{base}/{tag}_doc{i}.yaml'
            where[i] = path
            if d['seed'] % 7 == 3:
                # the content is read from a copy kept elsewhere and *associated* with the name it goes by (filename=): file-relative
                # things are relative to the associated name
                phys = f'/other/copies/{tag}_doc{i}.yaml'
                files[phys] = emit.emit_doc(docs[i])
                calls.append({'path': phys, 'filename': path, 'raw_yaml': r.choice([None, False])})
                continue
            files[path] = emit.emit_doc(docs[i])
            calls.append({'path': _src_name(path, d['name_how']), 'raw_yaml': r.choice([None, False]), 'as_path': (d['seed'] + len(calls)) % 4 == 0})
            continue
        if kind in ('text_fn', 'stream'):
            i = d['docs'][0]
            path = f'{base}/{tag}_virt{i}.yaml'
            where[i] = path
            calls.append({('text' if kind == 'text_fn' else 'stream'): emit.emit_doc(docs[i]), 'filename': path})
            continue
        if kind == 'multidoc':
            path = f'{base}/{tag}_multi.yaml'
            files[path] = emit.emit_stream([docs[i] for i in d['docs']])
            for i in d['docs']:
                where[i] = path
            calls.append({'path': _src_name(path, d['name_how']), 'raw_yaml': r.choice([None, False]), 'as_path': (d['seed'] + len(calls)) % 4 == 0})
            continue
        # include-based deliveries: every block document in its own file
        master = f'{base}/{tag}_master.yaml'
        inc_from = master
        inc_dir = base
        if kind in ('nested', 'nested3'):
            mid = f'{d["mid_dir"]}/{tag}_mid.yaml'
            name, _ = _name_for(r, mid, base)
            files[master] = emit.emit_doc(raw(f'!include {emit.scalar_text(name)}'))
            includes.append({'from': master, 'name': name, 'target': mid})
            if kind == 'nested3':
                mid2 = f'{base}/deep/{tag}_mid2.yaml'
                name2, _ = _name_for(r, mid2, d['mid_dir'])
                files[mid] = emit.emit_doc(raw(f'!include [{emit.scalar_text(name2)}]'))
                includes.append({'from': mid, 'name': name2, 'target': mid2})
                inc_from, inc_dir = mid2, posixpath.dirname(mid2)
            else:
                inc_from, inc_dir = mid, d['mid_dir']
        names = []
        placed = {}
        for i, how in zip(d['docs'], d['file_dirs']):
            j = sc.get('same_as', {}).get(str(i))
            if j is not None and j in placed:
                # same file again, under a (possibly) different spelling of its name
                real, nm = placed[j]
                where[i] = real
                nm2 = r.choice([nm, './' + nm if not nm.startswith(('/', '~', '.')) else nm,
                                'zz/../' + nm if not nm.startswith(('/', '~', '.')) else nm])
                names.append(nm2)
                includes.append({'from': inc_from, 'name': nm2, 'target': real})
                continue
            fname = f'{tag}_inc{i}.yaml'
            real, decoy = _place(inc_dir, how, fname)
            files[real] = emit.emit_doc(docs[i])
            where[i] = real
            if decoy is not None and decoy != real:
                files[decoy] = emit.emit_doc(m({f'decoy_{tag}_{i}': s('WRONG COPY')}))
                decoys[decoy] = real
            if how in ('same', 'both', 'custom'):
                name = fname
            elif how == 'sub':
                name = f'inc/{fname}'
            elif how == 'up':
                name = f'../{fname}' if inc_dir != '/' else fname
            elif how == 'cwd_only':
                name = fname
            elif how == 'home':
                name = '~/' + posixpath.relpath(real, HOME)
            else:
                name = real
            names.append(name)
            placed[i] = (real, name)
            includes.append({'from': inc_from, 'name': name, 'target': real})
        if kind == 'include_docs':
            body = emit.emit_stream([raw(f'!include {emit.scalar_text(nm)}') for nm in names])
        else:
            body = emit.emit_doc(raw('!include [' + ', '.join(emit.scalar_text(nm) for nm in names) + ']'))
        if wrap_key is not None:
            inc = '!include [' + ', '.join(emit.scalar_text(nm) for nm in names) + ']'
            if 'multidoc' in wrap_key:
                # all documents in one multi-document file next to the master
                multi = f'{inc_dir}/{tag}_all_docs.yaml'
                files[multi] = emit.emit_stream([docs[i] for i in d['docs']])
                for i in d['docs']:
                    where[i] = multi
                includes[:] = [{'from': inc_from, 'name': f'{tag}_all_docs.yaml', 'target': multi}]
                inc = f'!include {tag}_all_docs.yaml'
            rec = '!rec [' + ', '.join(emit.scalar_text(nm) for nm in names) + ']'
            body = _UNDER[wrap_key][0].replace('INC', inc).replace('REC', rec) + '\n'
        files[inc_from] = body
        calls.append({'path': _src_name(master, d['name_how']), 'raw_yaml': r.choice([None, False]), 'as_path': (d['seed'] + len(calls)) % 4 == 0})
    return {'files': files, 'calls': calls, 'where': where, 'includes': includes, 'decoys': decoys}


def reference_plan(sc):
    return [{'kind': 'file', 'docs': [i], 'id': i, 'dir': '/w/conf', 'name_how': 'abs', 'file_dirs': ['same'], 'mid_dir': '/w', 'seed': i}
            for i in range(len(sc['docs']))]


# ---------------------------------------------------------------------------------------------
# the lookup / path model

def expand_home(p):
    if p == '~' or p.startswith('~/'):
        return HOME + p[1:]
    return p


def abs_of(p):
    p = expand_home(p)
    if not posixpath.isabs(p):
        p = posixpath.join(CWD, p)
    return posixpath.normpath(p)


def lookup_model(files, inc_from, name):
    """Absolute path that must be opened for an include of ``name`` written in ``inc_from``; None if missing."""
    name = expand_home(name)
    dirs = []
    if inc_from is not None:
        dirs.append(posixpath.dirname(inc_from))
    dirs.append(CWD)
    dirs.append(EXTRA_DIR)
    for d in dirs:
        cand = posixpath.normpath(posixpath.join(d, name))
        if cand in files:
            return cand
    return None


def _cwd_independent(sc, mat):
    if any(v['form'] == 'cwd' for v in sc['ptoks'].values()):
        return False
    for c in mat['calls']:
        nm = c.get('path') or c.get('filename')
        if nm is None or not (nm.startswith('/') or nm.startswith('~')):
            return False
    if not mat['includes']:
        return False
    for i in mat['includes']:
        if i['from'] is None:
            return False
        if posixpath.normpath(posixpath.join(posixpath.dirname(i['from']), expand_home(i['name']))) not in mat['files']:
            return False
    return True


def expected_path(form, file_abs, tok):
    if form == '':
        base = CWD
    elif form == 'cwd':
        base = CWD
    elif form.startswith('abs('):
        base = form[4:-1]
    elif form == 'file':
        base = file_abs
    else:
        n = 0
        mm = re.match(r'parent\((\d+)\)', form)
        if mm:
            n = int(mm.group(1))
        base = posixpath.dirname(file_abs)
        for _ in range(n):
            base = posixpath.dirname(base)
    return posixpath.normpath(posixpath.join(base, tok))


# ---------------------------------------------------------------------------------------------
# execution (child)

def _walk_paths(v, out):
    import pathlib
    if isinstance(v, dict):
        for x in v.values():
            _walk_paths(x, out)
    elif isinstance(v, (list, tuple)):
        for x in v:
            _walk_paths(x, out)
    elif isinstance(v, pathlib.PurePath):
        out[v.name] = str(v)


def _mask_paths(v):
    import pathlib
    if isinstance(v, dict):
        return {k: _mask_paths(x) for k, x in v.items()}
    if isinstance(v, (list, tuple)):
        return [_mask_paths(x) for x in v]
    if isinstance(v, pathlib.PurePath):
        return '<path:' + v.name + '>'
    return v


EXTRA_DIR = '/lookup/extra'


def _custom_builder(Builder):
    """The documented customisation point: a Builder subclass adding one more lookup directory (after the standard two)."""
    class SearchPathBuilder(Builder):
        def get_lookup_dirs(self, ref_point):
            yield from super().get_lookup_dirs(ref_point)
            yield EXTRA_DIR
    return SearchPathBuilder


def _child(files, calls, fs_faults, pre_calls, entry='builder', mid_build=None, repair=None, prelude=False):
    from awesomeyaml import Builder, Config, errors
    import io
    import pathlib
    fs = simfs.SimFS(files, cwd=CWD, home=HOME, faults=fs_faults).install()
    recorder.install()
    out = {'pre': []}

    def add(b, c):
        if 'path' in c:
            # the name as a string or as a pathlib.Path (same spelling)
            b.add_source(pathlib.Path(c['path']) if c.get('as_path') else c['path'], raw_yaml=c.get('raw_yaml'), **({'filename': c['filename']} if c.get('filename') else {}))
        elif 'text' in c:
            b.add_source(c['text'], raw_yaml=True, filename=c.get('filename'))
        else:
            b.add_source(io.StringIO(c['stream']), filename=c.get('filename'))

    def client():
        sched.begin_op('build', 3_000_000)
        stage = 'add'
        try:
            if entry == 'cmdline':
                # the command-line entry point: short argument names resolved by a lookup function
                table = {f'arg{i}': c['path'] for i, c in enumerate(calls)}
                stage = 'build'
                cfg = Config.build_from_cmdline(*table.keys(), filename_lookup_fn=lambda name: table[name])
                out['status'] = 'ok'
                paths = {}
                _walk_paths(cfg, paths)
                out['paths'] = paths
                out['cfg'] = observe.native(_mask_paths(cfg))
                raise _Done()
            fs.cwd = '/w/where_the_builder_was_created'      # the working directory that counts is the one at lookup time
            b = _custom_builder(Builder)()
            fs.cwd = CWD
            if any(f.get('kind') == 'cwd_gone' for f in fs_faults):
                fs.cwd_gone = True
            if prelude:
                # earlier in the life of this builder: another working directory, a source whose include is found through it, a build
                fs.files['/w/earlier_cwd/zz_probe_inc.yaml'] = '{zz_probe: 1}\n'
                fs.cwd = '/w/earlier_cwd'
                b.add_source('!include zz_probe_inc.yaml\n', raw_yaml=True)
                b.build()
                fs.cwd = CWD
            for c in pre_calls:
                try:
                    add(b, c)
                    out['pre'].append('ok')
                except Exception as e:
                    out['pre'].append(type(e).__name__)
                out['pre_current_file'] = b.get_current_file()
                out['pre_stages'] = len(b.stages)
            for ci, c in enumerate(calls):
                if mid_build is not None and ci == mid_build:
                    b.build()         # the builder is used incrementally: what was added so far is built, then more is added
                    out['mid_build'] = ci
                add(b, c)
            stage = 'build'
            try:
                root = b.build()
            except errors.Error:
                if not repair:
                    raise
                # the build failed (files missing); they are put in place and the same builder is asked again
                fs.files.update(repair)
                out['repaired'] = True
                stage = 'build_after_repair'
                root = b.build()
            stage = 'eval'
            cfg = Config(root)
            if prelude:
                cfg.pop('zz_probe', None)
            out['status'] = 'ok'
            paths = {}
            _walk_paths(cfg, paths)
            out['paths'] = paths
            out['cfg'] = observe.native(_mask_paths(cfg))
        except _Done:
            pass
        except sched.SimTimeout:
            out['status'] = 'timeout'
        except Exception as e:
            out['status'] = 'error'
            out['exc'] = {'type': type(e).__name__, 'msg': observe.norm_text(e)[:3000], 'is_ay': isinstance(e, errors.Error),
                          'causes': observe.cause_types(e)}
        out['stage'] = stage
        sched.end_op()

    sc_ = sched.Scheduler({'policy': 'serial'}, opcodes=False)
    sc_.run([client])
    out['log'] = fs.log
    out['fired'] = fs.fired_counts
    out['lines'] = sum(t.lines for t in sc_.threads)
    return out


class _Done(Exception):
    pass


def _run(mat, fs_faults=(), pre_calls=(), drop=(), entry='builder', mid_build=None, repair=None, prelude=False):
    files = {k: v for k, v in mat['files'].items() if k not in drop}
    c = core.fork_call(_child, (files, mat['calls'], list(fs_faults), list(pre_calls), entry, mid_build, repair, prelude), timeout=40)
    if c['status'] != 'ok':
        raise core.HarnessError(f'{c["status"]}: {c.get("error", c.get("signal", ""))}')
    return c['value']


_MISSING_RE = re.compile(r"'missing': (\[[^\]]*\])")


# ---------------------------------------------------------------------------------------------
# oracle (worker)

def _check_lookup(mat, obs, res, label, files=None):
    """Every include must have opened the copy the lookup model selects."""
    files = files if files is not None else mat['files']
    opened = [e[1] for e in obs['log'] if e[0] == 'open' and e[2] == 'ok']
    for inc in mat['includes']:
        want = lookup_model(files, inc['from'], inc['name'])
        if want is None:
            continue
        decoy_of = [d for d, real in mat['decoys'].items() if real == want]
        if want not in opened:
            res['violations'].append(core.violation('lookup.wrong_file', f'{label}: include of {inc["name"]!r} written in {inc["from"]!r} must read {want!r} '
                                                    f'(first existing of [dir of including file, cwd]) but opened files were {opened!r}', how='not_opened'))
            return False
        for d in decoy_of:
            if d in opened:
                res['violations'].append(core.violation('lookup.wrong_file', f'{label}: include of {inc["name"]!r} from {inc["from"]!r} also read the cwd copy {d!r}', how='decoy_opened'))
                return False
    return True


def _check_paths(sc, mat, obs, res, label):
    for tok, got in obs.get('paths', {}).items():
        info = sc['ptoks'].get(tok)
        if info is None:
            continue
        f = mat['where'].get(info['doc'])
        if f is None:
            continue
        want = expected_path(info['form'], f, tok)
        if abs_of(got) != want:
            res['violations'].append(core.violation('path.reference_point', f'{label}: !path:{info["form"]} [{tok}] written in {f!r} evaluated to {got!r} '
                                                    f'(absolute {abs_of(got)!r}), expected {want!r}', form=info['form'].split('(')[0]))
            return False
    return True


def execute(sc):
    res = core.ok_result()
    st = res['stats']
    st['faults'] = {}
    st['outcomes'] = {}
    probes = st.setdefault('probes', {})

    def count(d, k, n=1):
        d[k] = d.get(k, 0) + n

    try:
        ref_mat = materialise(sc, reference_plan(sc))
        ref = _run(ref_mat)
        st['runs'] = 1
        st['lines'] = ref['lines']
        count(st['outcomes'], 'reference:' + ref['status'])
        if ref['status'] == 'timeout':
            res['violations'].append(core.violation('liveness.step_budget', 'reference build exceeded the step budget'))
            return res
        if ref['status'] == 'ok':
            _check_paths(sc, ref_mat, ref, res, 'reference route')
        mats = []
        for pi, plan in enumerate(sc['plans']):
            if res['violations']:
                break
            mat = materialise(sc, plan)
            mats.append(mat)
            # a third of the multi-source plans use the builder incrementally: build() after some of the sources, then the rest
            mid = (1 + plan[0]['seed'] % (len(mat['calls']) - 1)) if len(mat['calls']) >= 2 and plan[0]['seed'] % 3 == 0 else None
            obs = _run(mat, mid_build=mid)
            st['runs'] += 1
            st['lines'] += obs['lines']
            label = f'plan#{pi} ' + '+'.join(d['kind'] for d in plan) + (f' (build() also called after source {mid})' if mid is not None else '')
            if mid is not None:
                count(probes, 'builder_used_incrementally')
            kinds = {d['kind'] for d in plan}
            for kd in kinds:
                count(probes, 'delivery:' + kd)
            for d in plan:
                for how in d['file_dirs']:
                    if d['kind'] in ('include_list', 'include_docs', 'nested', 'nested3'):
                        count(probes, 'layout:' + how)
            if kinds - {'file', 'text_fn', 'stream'}:
                res['keys'].append(core.digest([sc['docs'], plan]))
            count(st['outcomes'], 'plan:' + obs['status'])
            if obs['status'] == 'timeout':
                res['violations'].append(core.violation('liveness.step_budget', f'{label}: build exceeded the step budget'))
                break
            if obs['status'] != ref['status']:
                detail = obs.get('exc') or ref.get('exc')
                res['violations'].append(core.violation(
                    'route.outcome', f'{label}: build {obs["status"]} but the same documents as separate sources: {ref["status"]}; '
                    f'{detail["type"]}: {detail["msg"][:500]}', ref=ref['status'], stage=obs.get('stage') if obs['status'] == 'error' else ref.get('stage')))
                break
            if obs['status'] == 'ok':
                if obs['cfg'] != ref['cfg']:
                    d = _first_diff(obs['cfg'], ref['cfg'])
                    res['violations'].append(core.violation(
                        'route.config', f'{label}: config differs from the one built from separate sources at {d[0]}: got {d[1]!r}, separate sources give {d[2]!r}',
                        kinds='+'.join(sorted(kinds - {"file", "text_fn", "stream"}))))
                    break
                if not _check_lookup(mat, obs, res, label):
                    break
                if not _check_paths(sc, mat, obs, res, label):
                    break
                if mat['includes'] and plan[0]['seed'] % 3 == 2:
                    # the same builder had an earlier life in another working directory (a source with a cwd-resolved include, a build):
                    # what counts for the lookups now is the working directory now
                    ob7 = _run(mat, prelude=True)
                    st['runs'] += 1
                    count(probes, 'builder_used_before_in_another_cwd')
                    if ob7['status'] != 'ok':
                        res['violations'].append(core.violation('route.outcome', f'{label}: on a builder that was used (and built) earlier while the working directory was another one, the build fails at stage {ob7.get("stage")}: '
                                                                f'{ob7["exc"]["type"]}: {ob7["exc"]["msg"][:400]}', ref='ok', stage=ob7.get('stage')))
                        break
                    if ob7['cfg'] != ref['cfg']:
                        d = _first_diff(ob7['cfg'], ref['cfg'])
                        res['violations'].append(core.violation('route.config', f'{label}: on a builder used earlier in another working directory the config differs at {d[0]}: {d[1]!r} vs {d[2]!r}', kinds='earlier_cwd'))
                        break
                if _cwd_independent(sc, mat):
                    # nothing here needs the working directory (absolute source names, every include found next to the including
                    # file). With the directory removed (getcwd fails) this is an environment fault like any other: the build may fail
                    # - an implementation may list its lookup directories eagerly -, but if it succeeds the config is the same
                    ob6 = _run(mat, fs_faults=[{'kind': 'cwd_gone'}])
                    st['runs'] += 1
                    count(probes, 'working_directory_removed')
                    for k_, n_ in ob6['fired'].items():
                        count(st['faults'], k_, n_)
                    count(st['outcomes'], 'cwd_gone:' + ob6['status'])
                    if ob6['status'] == 'ok' and ob6['cfg'] != ref['cfg']:
                        d = _first_diff(ob6['cfg'], ref['cfg'])
                        res['violations'].append(core.violation('fault.wrong_data', f'{label}: with the working directory removed the build succeeds with a different config at {d[0]}: {d[1]!r} vs {d[2]!r}', kinds='cwd_gone'))
                        break
                if all('path' in c and 'filename' not in c for c in mat['calls']) and pi == 0 and not any(h == 'custom' for d in plan for h in d['file_dirs']):
                    ob2 = _run(mat, entry='cmdline')
                    st['runs'] += 1
                    count(probes, 'entry:build_from_cmdline')
                    if ob2['status'] != 'ok' or ob2['cfg'] != ref['cfg']:
                        d = _first_diff(ob2.get('cfg'), ref['cfg']) if ob2['status'] == 'ok' else ('status', ob2.get('exc'), 'ok')
                        res['violations'].append(core.violation('route.config', f'{label} through Config.build_from_cmdline(filename_lookup_fn=...) differs from separate sources at {d[0]}: {d[1]!r} vs {d[2]!r}', kinds='cmdline'))
                        break
                    if not _check_lookup(mat, ob2, res, label + ' (cmdline)') or not _check_paths(sc, mat, ob2, res, label + ' (cmdline)'):
                        break
            else:
                if obs['exc']['is_ay'] != ref['exc']['is_ay']:
                    pass   # error class may differ by route (MergeError vs PremergeError); only success/failure is compared
        # key: !include [...]  ==  {key: merged content}
        has_empty = any(d['k'] == 'empty' for d in sc['docs'])
        if not res['violations'] and sc.get('under_key') and ref['status'] == 'ok' and sc['plans'] and not has_empty:
            shape = sc['under_key'] if isinstance(sc['under_key'], str) else 'key'
            mat = materialise(sc, sc['plans'][0], wrap_key=shape)
            obs = _run(mat)
            st['runs'] += 1
            count(probes, 'delivery:under_key')
            count(probes, 'under:' + shape)
            res['keys'].append(core.digest([sc['docs'], 'under_key', shape, sc['plans'][0][0]['dir']]))
            if obs['status'] != 'ok':
                res['violations'].append(core.violation('route.outcome', f'{_UNDER[shape][0]} failed ({obs["exc"]["type"]}: {obs["exc"]["msg"][:400]}) but the files merge fine as separate sources', ref='ok', stage=obs.get('stage')))
            else:
                inner = obs['cfg']
                try:
                    for comp in _UNDER[shape][1]:
                        if '__dict__' in inner:
                            inner = next(v for k, v in inner['__dict__'] if k[1] == comp)
                        else:
                            inner = inner['__seq__'][comp]
                except (StopIteration, IndexError, KeyError, TypeError):
                    inner = None
                ref_inner = dict(ref['cfg'])
                if inner is None or not isinstance(inner, dict) or inner.get('__dict__') != ref_inner.get('__dict__'):
                    d = _first_diff(inner, ref_inner) or ('', inner, ref_inner)
                    res['violations'].append(core.violation('route.config', f'{_UNDER[shape][0]} (INC = include of all documents) differs from placing the merged content there, at {d[0]}: got {d[1]!r}, expected {d[2]!r}', kinds='under_key:' + shape))
                else:
                    _check_lookup(mat, obs, res, 'under_key')
                    _check_paths(sc, mat, obs, res, 'under_key')
                    inc = mat['includes']
                    if not res['violations'] and len(inc) >= 2 and sum(1 for i in inc if i['target'] == inc[-1]['target']) == 1:
                        # the last of the names is found nowhere (the earlier ones are): the build must fail and say which
                        drop = {inc[-1]['target']}
                        files2 = {k: v for k, v in mat['files'].items() if k not in drop}
                        if lookup_model(files2, inc[-1]['from'], inc[-1]['name']) is None:
                            ob5 = _run(mat, drop=drop)
                            st['runs'] += 1
                            count(probes, 'under_key_last_name_missing')
                            count(st['faults'], 'file_missing')
                            nm = expand_home(inc[-1]['name'])
                            if ob5['status'] == 'ok':
                                res['violations'].append(core.violation('missing.not_reported', f'{_UNDER[shape][0]}: the last name {nm!r} is found nowhere but the build succeeded', n=1))
                            elif nm not in ob5['exc']['msg'] and posixpath.basename(nm) not in ob5['exc']['msg']:
                                res['violations'].append(core.violation('missing.not_named', f'{_UNDER[shape][0]}: error does not name the missing file {nm!r}: {ob5["exc"]["msg"][:500]}'))
        # key: !include f merged over earlier content of the same key == the file's (stand-alone) content placed there
        if not res['violations'] and len(sc['docs']) >= 2 and sc.get('under_key') and not has_empty:
            d1, d2 = sc['docs'][0], sc['docs'][1]
            txt2 = emit.emit(d2)
            if not any(t in txt2 for t in ('!clear', '!prev', '!notnew')) and not d1.get('tag') and not d2.get('tag'):
                f2 = '/w/conf/after_inc.yaml'
                lit = copy.deepcopy(d2)
                for it in lit['items']:
                    if it[1].get('tag') in ('!append', '!extend'):
                        it[1]['tag'] = None          # alone in its file there is nothing to append to: a plain list
                first = emit.emit_doc(m({'wrapped': d1}))
                a = {'files': {f2: emit.emit_doc(d2), '/w/conf/after_master.yaml': '{wrapped: !include after_inc.yaml}\n'},
                     'calls': [{'text': first, 'filename': '/w/conf/first.yaml'}, {'path': '/w/conf/after_master.yaml', 'raw_yaml': False}]}
                b = {'files': {}, 'calls': [{'text': first, 'filename': '/w/conf/first.yaml'},
                                            {'text': emit.emit_doc(m({'wrapped': lit})), 'filename': f2}]}
                oa, ob = _run(a), _run(b)
                st['runs'] += 2
                count(probes, 'delivery:under_key_after_content')
                if oa['status'] != ob['status'] or (oa['status'] == 'ok' and oa['cfg'] != ob['cfg']):
                    d = _first_diff(oa.get('cfg'), ob.get('cfg')) if oa['status'] == ob['status'] else ('status', oa['status'], ob['status'])
                    res['violations'].append(core.violation('route.config', f'{{wrapped: D1}} then {{wrapped: !include f}} differs from {{wrapped: D1}} then {{wrapped: <content of f>}} at {d[0]}: {d[1]!r} vs {d[2]!r}; '
                                                            f'D1={emit.emit(d1)} f={txt2}', kinds='under_key_after_content'))
        # fault plans
        for fi, f in enumerate(sc['faults']):
            if res['violations'] or not mats:
                break
            pi = f['plan'] % len(mats)
            mat = mats[pi]
            plan = sc['plans'][pi]
            label = f'fault#{fi} {f["kind"]} on plan#{pi}'
            if f['kind'] == 'missing':
                inc_targets = sorted({i['target'] for i in mat['includes']})
                if not inc_targets:
                    continue
                import random
                rr = random.Random(f['pick'])
                drop = set(rr.sample(inc_targets, min(f['count'], len(inc_targets))))
                files = {k: v for k, v in mat['files'].items() if k not in drop}
                obs = _run(mat, drop=drop)
                st['runs'] += 1
                truly_missing = [i for i in mat['includes'] if lookup_model(files, i['from'], i['name']) is None]
                count(st['faults'], 'file_missing', len(drop))
                res['keys'].append(core.digest([sc['docs'], plan, 'missing', sorted(drop)]))
                if not truly_missing:
                    # a decoy copy in the cwd takes over: legal by the lookup rule; the lookup check below covers it
                    count(probes, 'missing_but_cwd_copy_found')
                    if obs['status'] == 'ok':
                        _check_lookup(mat, obs, res, label, files=files)
                    continue
                count(st['outcomes'], 'missing:' + obs['status'])
                if obs['status'] == 'ok':
                    res['violations'].append(core.violation('missing.not_reported', f'{label}: files {sorted(drop)!r} are found nowhere but the build succeeded', n=len(drop)))
                    break
                if not obs['exc']['is_ay']:
                    res['violations'].append(core.violation('missing.error_kind', f'{label}: missing include reported as {obs["exc"]["type"]}, not an awesomeyaml error: {obs["exc"]["msg"][:300]}', type=obs['exc']['type']))
                    break
                msg = obs['exc']['msg']
                miss_names = {expand_home(i['name']) for i in truly_missing}
                # "an error naming it": the name (as written, or its last component) of at least one missing file appears in the text
                if not any(nm in msg or posixpath.basename(nm) in msg for nm in miss_names):
                    res['violations'].append(core.violation('missing.not_named', f'{label}: error does not name a missing file; missing={sorted(miss_names)!r}; message: {msg[:600]}'))
                    break
                # if the message carries an explicit list of missing names (current format), it must not list files that exist
                mm = _MISSING_RE.search(msg)
                named = re.findall(r"'([^']+)'", mm.group(1)) if mm else []
                exist_names = {expand_home(i['name']) for i in mat['includes'] if lookup_model(files, i['from'], i['name']) is not None} - miss_names
                wrong = [nm for nm in named if nm in exist_names]
                if wrong:
                    res['violations'].append(core.violation('missing.names_existing', f'{label}: error lists {wrong!r} as missing but they exist; message: {msg[:600]}'))
                    break
                if named and not any(nm in miss_names for nm in named):
                    res['violations'].append(core.violation('missing.not_named', f'{label}: the error\'s list of missing files {named!r} contains none of the missing ones {sorted(miss_names)!r}'))
                    break
                # the missing files are put in place and build() is called again on the same builder: same config as if nothing had happened
                if ref['status'] == 'ok' and not any(lookup_model(files, i['from'], i['name']) is not None for i in mat['includes'] if i['target'] in drop):
                    ob4 = _run(mat, drop=drop, repair={k: mat['files'][k] for k in drop})
                    st['runs'] += 1
                    if ob4.get('repaired'):
                        count(probes, 'build_failed_then_files_restored')
                        if ob4['status'] != 'ok':
                            res['violations'].append(core.violation('fault.state_leak', f'{label}: after the missing files {sorted(drop)!r} were put in place, build() on the same builder still fails at stage {ob4.get("stage")}: '
                                                                    f'{ob4["exc"]["type"]}: {ob4["exc"]["msg"][:500]}', kind='rebuild_after_missing'))
                            break
                        if ob4['cfg'] != ref['cfg']:
                            d = _first_diff(ob4['cfg'], ref['cfg'])
                            res['violations'].append(core.violation('fault.wrong_data', f'{label}: after the missing files were put in place, the second build() gives a different config at {d[0]}: {d[1]!r} vs {d[2]!r}', kind='rebuild_after_missing'))
                            break
            elif f['kind'] in ('io', 'replaced'):
                if f['kind'] == 'io':
                    fsf = [{'nth': f['nth'], 'kind': f['err']}]
                else:
                    fsf = [{'nth': f['nth'], 'kind': 'replace:{replaced_content_marker: 1}\n'}]
                obs = _run(mat, fs_faults=fsf)
                st['runs'] += 1
                fired = sum(obs['fired'].values())
                for k, n in obs['fired'].items():
                    count(st['faults'], k, n)
                if not fired:
                    continue
                res['keys'].append(core.digest([sc['docs'], plan, f]))
                count(st['outcomes'], f'{f["kind"]}:{obs["status"]}')
                if f['kind'] == 'replaced':
                    continue   # content changed between opens: nothing is promised, only termination (probe)
                base = _run(mat)
                st['runs'] += 1
                if obs['status'] == 'ok':
                    if base['status'] != 'ok' or obs['cfg'] != base['cfg']:
                        res['violations'].append(core.violation('fault.wrong_data', f'{label}: {f["err"]} on open #{f["nth"]} was swallowed and the build returned a config that differs from the fault-free one', err=f['err']))
                        break
            elif f['kind'] == 'failed_then_continue':
                # a source that fails in open/read (no stage is added), then the plan on the same builder
                bad = '/w/conf/failing_first.yaml'
                files = dict(mat['files'])
                pre = [{'path': bad, 'raw_yaml': False}]
                base_pre = []
                fsf = []
                malformed = '{zz: [1, 2\n'
                if f['err'] == 'parse_file':
                    files[bad] = malformed                      # the named source is rejected by the parser: no stage is added
                elif f['err'] == 'parse_text_fn':
                    pre = [{'text': malformed, 'filename': bad}]
                elif f['err'] == 'parse_stream_fn':
                    pre = [{'stream': malformed, 'filename': bad}]
                elif f['err'] == 'parse_second_doc':
                    # first document accepted (a stage is added), second rejected; a fresh builder gets the first document alone
                    files[bad] = '{from_failing_source: 1}\n---\n' + malformed
                    files['/w/conf/failing_first_good_part.yaml'] = '{from_failing_source: 1}\n'
                    base_pre = [{'path': '/w/conf/failing_first_good_part.yaml', 'raw_yaml': False}]
                elif f['err'] != 'ENOENT':
                    files[bad] = '{from_failing_source: 1}\n'
                    fsf = [{'path': bad, 'occ': 0, 'kind': f['err']}]
                # decoys next to the failing file: a leaked "current file" would make cwd-resolved includes read them
                mat2 = dict(mat)
                mat2['files'] = files
                extra_call = None
                tgt = f'{CWD}/after_failure_inc.yaml'
                files[tgt] = '{after_failure: real}\n'
                files['/w/conf/after_failure_inc.yaml'] = '{after_failure: WRONG COPY}\n'
                mat2['calls'] = [{'text': '!include after_failure_inc.yaml\n', 'filename': None}] + list(mat['calls'])
                obs = _run(mat2, fs_faults=fsf, pre_calls=pre)
                base = _run(mat2, pre_calls=base_pre)
                st['runs'] += 2
                for k, n in obs['fired'].items():
                    count(st['faults'], k, n)
                count(st['faults'], 'failing_source:' + (obs['pre'][0] if obs['pre'] else '?'))
                res['keys'].append(core.digest([sc['docs'], plan, f]))
                if obs['pre'] and obs['pre'][0] == 'ok':
                    continue
                if obs.get('pre_stages') and f['err'] != 'parse_second_doc':
                    continue   # the failing source added stages before failing: nothing to compare
                count(st['outcomes'], 'after_failed_source:' + obs['status'])
                if obs['status'] != base['status'] or (obs['status'] == 'ok' and obs['cfg'] != base['cfg']):
                    d = _first_diff(obs.get('cfg'), base.get('cfg')) if obs['status'] == 'ok' and base['status'] == 'ok' else ('status', obs['status'], base['status'])
                    res['violations'].append(core.violation(
                        'fault.state_leak', f'{label}: after add_source({bad!r}) failed with {obs["pre"][0]} ({f["err"]}), the same builder gives a different result '
                        f'than a fresh one at {d[0]}: {d[1]!r} vs {d[2]!r}; builder.get_current_file() after the failure = {obs.get("pre_current_file")!r}', err=f['err']))
                    break
    except core.HarnessError as e:
        res['harness'] = str(e)
        return res
    if sc['plans']:
        mat = materialise(sc, sc['plans'][0])
        res['sample'] = {'documents': [emit.emit(d) for d in sc['docs']], 'plan0': [{k: v for k, v in d.items() if k != 'seed'} for d in sc['plans'][0]],
                         'plan0_files': mat['files'], 'plan0_calls': mat['calls'], 'faults': sc['faults'], 'reference_outcome': ref['status']}
    return res


def _first_diff(a, b, path=''):
    if type(a) != type(b):
        return path, a, b
    if isinstance(a, dict):
        for k in sorted(set(a) | set(b), key=str):
            if k not in a or k not in b:
                return f'{path}.{k}', a.get(k, '<absent>'), b.get(k, '<absent>')
            d = _first_diff(a[k], b[k], f'{path}.{k}')
            if d:
                return d
        return None
    if isinstance(a, list):
        for i in range(min(len(a), len(b))):
            d = _first_diff(a[i], b[i], f'{path}[{i}]')
            if d:
                return d
        if len(a) != len(b):
            return f'{path}.len', a[min(len(a), len(b)):][:2] or len(a), b[min(len(a), len(b)):][:2] or len(b)
        return None
    return None if a == b else (path, a, b)


def shrink(sc):
    # fewer plans / faults
    if len(sc['plans']) > 1:
        for i in range(len(sc['plans'])):
            c = copy.deepcopy(sc)
            c['plans'] = [c['plans'][i]]
            c['faults'] = [dict(f, plan=0) for f in c['faults'] if f['plan'] % len(sc['plans']) == i]
            yield c
    for i in range(len(sc['faults'])):
        c = copy.deepcopy(sc)
        del c['faults'][i]
        yield c
    if sc.get('under_key'):
        c = copy.deepcopy(sc)
        c['under_key'] = False
        yield c
    # drop documents (plans re-cut as one delivery per remaining doc of the same kind)
    n = len(sc['docs'])
    if n > 1:
        for i in range(n):
            c = copy.deepcopy(sc)
            del c['docs'][i]
            c['ptoks'] = {k: (dict(v, doc=v['doc'] - (1 if v['doc'] > i else 0))) for k, v in c['ptoks'].items() if v['doc'] != i}
            c['same_as'] = {str(int(a) - (1 if int(a) > i else 0)): (b - (1 if b > i else 0))
                            for a, b in c.get('same_as', {}).items() if int(a) != i and b != i}
            newplans = []
            for plan in c['plans']:
                np_ = []
                for d in plan:
                    keep = [(x, fd) for x, fd in zip(d['docs'], d['file_dirs']) if x != i]
                    if not keep:
                        continue
                    d = dict(d, docs=[x - (1 if x > i else 0) for x, _ in keep], file_dirs=[fd for _, fd in keep])
                    np_.append(d)
                newplans.append(np_)
            c['plans'] = newplans
            yield c
    # simplify deliveries
    for pi, plan in enumerate(sc['plans']):
        for di, d in enumerate(plan):
            for fi, how in enumerate(d['file_dirs']):
                if how != 'same':
                    c = copy.deepcopy(sc)
                    c['plans'][pi][di]['file_dirs'][fi] = 'same'
                    yield c
            if d['kind'] in ('nested', 'nested3'):
                c = copy.deepcopy(sc)
                c['plans'][pi][di]['kind'] = 'include_list'
                yield c
            if d['name_how'] != 'abs':
                c = copy.deepcopy(sc)
                c['plans'][pi][di]['name_how'] = 'abs'
                yield c
    # shrink document content
    for i, doc in enumerate(sc['docs']):
        for cand in gen.shrink_tree(doc):
            c = copy.deepcopy(sc)
            c['docs'][i] = cand
            yield c


def evidence_extra(stats):
    return {'forked_builds': stats.get('runs', 0)}


def reach_problems(stats, tier):
    probs = []
    pr = stats.get('probes', {})
    for need in ('delivery:multidoc', 'delivery:include_list', 'delivery:include_docs', 'delivery:nested', 'delivery:under_key',
                 'layout:both', 'layout:cwd_only', 'layout:sub', 'layout:up', 'layout:home', 'layout:custom', 'under:rec'):
        if not pr.get(need):
            probs.append(f'probe {need} never fired')
    f = stats.get('faults', {})
    for need in ('file_missing', 'EACCES', 'EIO_read', 'undecodable'):
        if not f.get(need):
            probs.append(f'fault {need} never fired')
    return probs
