"""C17 - node containers stay consistent under any sequence of API operations.

A store with two redundant copies (the built-in dict/list storage and the child map) driven by
operation histories *including operations that fail part-way*: bad index / key, value whose node
construction raises, caller-supplied iterator or mapping that raises mid-stream.  Histories are
generated and shrunk by a Hypothesis RuleBasedStateMachine seeded from the run seed (one
Hypothesis run per simulated run, example database off); the machine records its own operation
list, which is the replay file and is replayed without Hypothesis.

Oracle: a plain nested dict/list model step by step + cross-view invariants after every step.
"""
import copy
import json
import os

from .. import core, observe

ID = 'C17'
RULE = ('a case = one operation history (Hypothesis stateful example) on a root mapping node holding nested mapping/list nodes; '
        'operations: item/attribute set and delete, update (mapping / pairs / kwargs), setdefault, pop, clear, append, insert, '
        'extend, remove, set_child / remove_child / rename_child, with scalars, nested containers and existing nodes (moved or shared) '
        'as values; injected faults: out-of-range / negative / non-integer index, missing key, key shadowing a class attribute, value '
        'whose node construction raises, iterator raising after k items, mapping whose items() raises; non-trivial iff the history '
        'has >= 2 state-changing operations or at least one fault fired; distinct = distinct digest of the operation list')
ASSUMPTIONS = [
    'asynchronous exceptions (MemoryError/KeyboardInterrupt at arbitrary lines) are not injected: the statement promises consistency after operations that complete or fail by themselves',
    'slices, sort, reverse, +=, *= and popitem are not in the statement\'s operation list and are not generated',
    'a failed extend/update may have applied a prefix of its items (narrow relaxation); any other failed operation must leave the pre-state',
]
TIERS = {
    'quick': {'runs': 32, 'wall_cap': 80, 'chunk': 1, 'det_sample': 3, 'examples': 150, 'steps': 25, 'min_budget': 40, 'min_each': 20},
    'thorough': {'runs': 480, 'wall_cap': 1200, 'chunk': 1, 'det_sample': 6, 'examples': 500, 'steps': 40, 'min_budget': 120, 'min_each': 40},
}

OP_BUDGET = 60_000     # traced line events per operation; the largest legitimate operation of this workload needs < 5000
FORBIDDEN_KEYS = ['items', 'keys', 'update', 'clear', 'pop', 'ayns', 'values', 'get', 'copy', 'setdefault']
GOOD_KEYS = ['a', 'b', 'c', 'k1', 'x_y', 'Z9', '12', 0, 1, 7, '_u', '_children', -1, -2]


class Violation(Exception):
    def __init__(self, rule, msg, **features):
        super().__init__(f'{rule}: {msg}')
        self.rule = rule
        self.msg = msg
        self.features = features


# ---------------------------------------------------------------------------------------------
# the world: real tree + model, one operation interpreter used by Hypothesis and by replay

class _RaisingIter:
    def __init__(self, items, after):
        self.items = list(items)
        self.after = after
        self.i = 0

    def __iter__(self):
        return self

    def __next__(self):
        if self.i >= self.after:
            raise RuntimeError('iterator fault (simulated)')
        if self.i >= len(self.items):
            raise StopIteration
        v = self.items[self.i]
        self.i += 1
        return v


class _LazyMapping(dict):
    """A mapping that computes its values when they are asked for (like os.environ or a configparser section):
    every access returns a fresh object, which is garbage as soon as the caller drops it."""
    def __init__(self, d):
        super().__init__()
        self._d = dict(d)
        for k in self._d:
            dict.__setitem__(self, k, None)

    def _make(self, v):
        if isinstance(v, str):
            return ''.join([v[:1], v[1:]]) if v else ''.join([])
        if isinstance(v, int) and not isinstance(v, bool):
            return int(str(v))
        if isinstance(v, float):
            return float(repr(v))
        return copy.deepcopy(v)

    def __getitem__(self, k):
        return self._make(self._d[k])

    def items(self):
        for k in self._d:
            yield k, self._make(self._d[k])

    def values(self):
        for k in self._d:
            yield self._make(self._d[k])

    def get(self, k, default=None):
        return self._make(self._d[k]) if k in self._d else default


class _BadMapping:
    def __init__(self, d):
        self.d = d

    def items(self):
        raise RuntimeError('items() fault (simulated)')

    def keys(self):
        return self.d.keys()

    def __iter__(self):
        return iter(self.d)

    def __getitem__(self, k):
        return self.d[k]


INITIAL_DOCS = [
    None,
    "{a: [1, 2, {k1: x}], b: {0: zero, 1: {c: [true, null]}}, 7: seven}",
    "{a: !force {b: !del [1, [2, 3]], 12: txt}, k1: !weak 2.5, Z9: {x_y: {a: {}}}, b: []}",
    "{0: [[0], [1, [2]]], 1: !merge {a: 1}, x_y: !unsafe {k1: [a, b]}}",
    # a tree merged from two documents, the second one using the list operators (the lists were grown by the merge machinery)
    (["{a: [1, 2], b: {l: [x]}, c: [0, 5], 7: [s]}", "{a: !extend [3, [4]], b: {l: !append [y, {k1: z}]}, c: !merge [9], 7: !append [t]}"],
     {'b': {'l': ['x', 'y', {'k1': 'z'}]}, 'c': [9, 5], 'a': [1, 2, 3, [4]], 7: ['s', 't']}),
]


def _initial(idx):
    """-> (root node, model) of initial tree number idx (None: empty mapping built from Python; else parsed from YAML,
    so that keys are node objects and merge flags are present - 'starting from any tree')."""
    from awesomeyaml.nodes.dict import ConfigDict
    text = INITIAL_DOCS[idx % len(INITIAL_DOCS)]
    if text is None:
        return ConfigDict({}), {}
    if isinstance(text, tuple):
        from awesomeyaml.builder import Builder
        b = Builder()
        for t in text[0]:
            b.add_source(t, raw_yaml=True)
        return b.build(), copy.deepcopy(text[1])
    import yaml as _pyyaml
    from awesomeyaml.builder import Builder
    b = Builder()
    b.add_source(text, raw_yaml=True)
    root = b.build()
    import re
    plain = re.sub(r'!(force|weak|del|merge|unsafe) ', '', text)
    return root, _pyyaml.safe_load(plain)


class World:
    def __init__(self, initial=0):
        self.root, self.model = _initial(initial)
        self.initial = initial
        self.ops = []
        self.faults = {}
        self.changes = 0
        self.stats = {'ops': 0, 'ops_ok': 0, 'ops_failed': 0}

    # -- helpers
    def containers(self, node=None, path=None, out=None, seen=None):
        """Paths (lists) of all containers of the model, root first; shared containers listed once per path."""
        if out is None:
            node, path, out = self.model, [], []
        out.append(list(path))
        items = node.items() if isinstance(node, dict) else enumerate(node)
        for k, v in items:
            if isinstance(v, (dict, list)) and len(path) < 6:
                self.containers(v, path + [k], out)
        return out

    def m_at(self, path):
        n = self.model
        for c in path:
            n = n[c]
        return n

    def r_at(self, path):
        from awesomeyaml.nodes.composed import ComposedNode
        n = self.root
        for c in path:
            n = n[c] if not isinstance(n, dict) else dict.__getitem__(n, c)
        return n

    def fault(self, kind):
        self.faults[kind] = self.faults.get(kind, 0) + 1

    def mk_value(self, spec):
        """-> (real value to pass to the library, model value, fault kind or None)"""
        k = spec['k']
        if k == 'py':
            return dec(spec['v']), dec(spec['v']), None
        if k == 'node_at':
            path = spec['path']
            try:
                return self.r_at(path), self.m_at(path), None
            except (KeyError, IndexError, TypeError):
                return 0, 0, None
        if k == 'lazy':
            # a mapping with at least three entries whose values are created on access (big ints / long strings: no interning)
            d = {f'lz{i}': (10 ** 6 + 17 * i if i % 2 else f'lazy-value-number-{i}-' + 'x' * 20) for i in range(spec['n'])}
            return _LazyMapping(d), dict(d), None
        if k == 'copy_of':
            # a shallow copy (copy.copy) of an existing container node: a new node sharing its (nested) children
            path = spec['path']
            try:
                rn, mn = self.r_at(path), self.m_at(path)
            except (KeyError, IndexError, TypeError):
                return 0, 0, None
            if not isinstance(mn, (dict, list)):
                return rn, mn, None
            return (rn.copy() if spec.get('via') == 'method' else copy.copy(rn)), copy.copy(mn), None
        if k == 'bad':
            return (x for x in [1]), None, 'unconvertible_value'
        raise ValueError(k)

    def model_value(self, spec):
        """-> (model value, fault kind) without touching the real tree."""
        if spec['k'] == 'py':
            return dec(spec['v']), None
        if spec['k'] == 'lazy':
            return {f'lz{i}': (10 ** 6 + 17 * i if i % 2 else f'lazy-value-number-{i}-' + 'x' * 20) for i in range(spec['n'])}, None
        if spec['k'] == 'copy_of':
            try:
                return copy.copy(self.m_at(spec['path'])), None
            except (KeyError, IndexError, TypeError):
                return 0, None
        if spec['k'] == 'node_at':
            try:
                return self.m_at(spec['path']), None
            except (KeyError, IndexError, TypeError):
                return 0, None
        return None, 'unconvertible_value'

    def _would_cycle(self, cpath, spec):
        if spec['k'] not in ('node_at', 'copy_of'):
            return False
        p = spec['path']
        try:
            tgt = self.m_at(p)
            dst = self.m_at(cpath)
        except (KeyError, IndexError, TypeError):
            return True
        if not isinstance(tgt, (dict, list)):
            return False
        # inserting tgt below dst: cycle iff dst is tgt or reachable from tgt
        stack = [tgt]
        seen = set()
        while stack:
            x = stack.pop()
            if x is dst:
                return True
            if id(x) in seen:
                continue
            seen.add(id(x))
            stack.extend(v for v in (x.values() if isinstance(x, dict) else x) if isinstance(v, (dict, list)))
        return False

    # -- invariants
    def check(self, where):
        from awesomeyaml.nodes.node import ConfigNode
        from awesomeyaml.nodes.composed import ComposedNode
        from awesomeyaml.nodes.node_path import NodePath
        from awesomeyaml.eval_context import EvalContext
        seen = set()
        stack = [([], self.root)]
        while stack:
            path, node = stack.pop()
            if id(node) in seen:
                continue
            seen.add(id(node))
            named = list(node.ayns.named_children())
            if isinstance(node, dict):
                builtin = list(dict.items(node))
                kind = 'dict'
            else:
                builtin = list(enumerate(list.__iter__(node)))
                kind = 'list'
            bk = [k for k, _ in builtin]
            ck = [k for k, _ in named]
            if bk != ck:
                raise Violation('views.keys', f'{where}: at {path!r} built-in view has keys {bk!r} but the child view has {ck!r}', kind=kind, after=where_op(where))
            for (k, a), (_, b) in zip(builtin, named):
                if a is not b:
                    raise Violation('views.identity', f'{where}: at {path!r}[{k!r}] built-in view holds {a!r} but the child view holds {b!r}', kind=kind, after=where_op(where))
                if not isinstance(a, ConfigNode):
                    raise Violation('views.not_a_node', f'{where}: entry {k!r} at {path!r} is {type(a).__name__}, not a node', kind=kind, after=where_op(where))
            if kind == 'list' and ck != list(range(len(ck))):
                raise Violation('list.numbering', f'{where}: list at {path!r} has children numbered {ck!r}', after=where_op(where))
            if len(node) != len(named):
                raise Violation('views.len', f'{where}: len() is {len(node)} but there are {len(named)} children at {path!r}', kind=kind, after=where_op(where))
            for k, c in named:
                if isinstance(c, ComposedNode) and isinstance(c, (dict, list)):
                    stack.append((path + [k], c))
        # tree walk vs lookup, path round trip
        n_walk = 0
        for p, n in self.root.ayns.nodes_with_paths():
            n_walk += 1
            if n_walk > 3000:
                break
            try:
                got = self.root.ayns.get_node(p)
            except Exception as e:
                raise Violation('walk.lookup', f'{where}: tree walk reports a node at {str(p)!r} but looking it up raises {type(e).__name__}: {e}', after=where_op(where))
            if got is not n:
                raise Violation('walk.lookup', f'{where}: tree walk reports {n!r} at {str(p)!r} but get_node returns {got!r}', after=where_op(where))
            text = str(p)
            back = NodePath.get_list_path(text)
            if list(back) != list(p):
                raise Violation('path.roundtrip', f'{where}: path {list(p)!r} -> {text!r} -> {list(back)!r}', after=where_op(where))
        # native value and evaluation equal the model, order included
        nat = native_of(self.root)
        if not same(nat, self.model):
            raise Violation('model.native', f'{where}: native value {nat!r} differs from the model {self.model!r}', after=where_op(where))
        ev = observe.plain(EvalContext().evaluate(self.root))
        if not same(ev, self.model):
            raise Violation('model.evaluate', f'{where}: evaluating the tree gives {ev!r}, the model says {self.model!r}', after=where_op(where))

    # -- operations
    def apply(self, op):
        """Apply one operation to tree and model; raises Violation."""
        self.ops.append(op)
        self.stats['ops'] += 1
        name = op['op']
        cpath = op['at']
        try:
            real = self.r_at(cpath)
            mod = self.m_at(cpath)
        except (KeyError, IndexError, TypeError):
            return   # stale path in a shrunk history: no-op
        is_dict = isinstance(mod, dict)
        if name in DICT_OPS and not is_dict or name in LIST_OPS and is_dict:
            return
        for vs in op_values(op):
            if self._would_cycle(cpath, vs):
                return
        pre = copy.deepcopy(self.model)
        label = f'after op #{len(self.ops) - 1} {name}'
        fault_kinds = []
        fns = OPS[name](self, real, mod, op, fault_kinds)
        lib_fn, model_fn = fns[0], fns[1]
        resync = len(fns) > 2
        for fk in fault_kinds:
            self.fault(fk)
        from .. import sched
        sched.begin_op(name, OP_BUDGET)
        try:
            lib_fn()
            lib_exc = None
        except Violation:
            raise
        except sched.SimTimeout:
            raise Violation('liveness.step_budget', f'{label}: the operation did not finish within {OP_BUDGET} traced steps (op={op!r})', op=name)
        except Exception as e:
            lib_exc = e
        finally:
            sched.end_op()
        try:
            model_fn()
            mod_exc = None
        except Exception as e:
            mod_exc = e
        if lib_exc is None:
            self.stats['ops_ok'] += 1
            self.changes += 1
            if mod_exc is not None or resync:
                # the library accepted what plain Python rejects, or the operation has no Python-defined
                # result: only the invariants are checked, then the model follows the tree
                if mod_exc is not None:
                    self.fault('lenient:' + name)
                self.model = pre
                self._check_views_only(label)
                self.model = self._resync()
            self.check(label)
        else:
            self.stats['ops_failed'] += 1
            self.fault('op_failed:' + type(lib_exc).__name__)
            # a failed operation must leave the pre-state (or, for extend/update, a prefix of the items applied)
            self.model = pre
            cands = [pre]
            if name in ('extend', 'update'):
                cands = prefix_states(pre, cpath, op, self)
            label2 = label + f' (failed with {type(lib_exc).__name__})'
            self._check_views_only(label2)
            nat = native_of(self.root)
            if not any(same(nat, c) for c in cands):
                raise Violation('failed_op.state', f'{label} failed with {type(lib_exc).__name__}: {lib_exc}; tree is now {nat!r}, '
                                f'expected the pre-state {pre!r}' + (' or a prefix of the items applied' if len(cands) > 1 else ''),
                                op=name, exc=type(lib_exc).__name__)
            self.model = self._resync()
            self.check(label2)

    def _check_views_only(self, where):
        saved = self.model
        try:
            self.model = self._resync()
            self.check(where)
        finally:
            self.model = saved

    def _resync(self):
        """Model rebuilt from the tree's child view (aliasing preserved by node identity)."""
        memo = {}

        def conv(n):
            from awesomeyaml.nodes.composed import ComposedNode
            if isinstance(n, ComposedNode) and isinstance(n, (dict, list)):
                if id(n) in memo:
                    return memo[id(n)]
                if isinstance(n, dict):
                    from awesomeyaml.nodes.node import ConfigNode
                    d = memo[id(n)] = {}
                    for k, c in n.ayns.named_children():
                        d[k.ayns.native_value if isinstance(k, ConfigNode) else k] = conv(c)
                    return d
                lst = memo[id(n)] = []
                for _, c in n.ayns.named_children():
                    lst.append(conv(c))
                return lst
            return n.ayns.native_value
        return conv(self.root)

def native_of(n):
    """Plain data of a node tree read through the built-in dict/list view (keys given through the API are plain)."""
    from awesomeyaml.nodes.node import ConfigNode
    if isinstance(n, dict):
        return {(k.ayns.native_value if isinstance(k, ConfigNode) else k): native_of(v) for k, v in dict.items(n)}
    if isinstance(n, list):
        return [native_of(v) for v in list.__iter__(n)]
    if isinstance(n, ConfigNode):
        return n.ayns.native_value
    return ('<not a node>', n)


def enc(v):
    """Python value -> JSON-safe form (dict keys keep their int/str type)."""
    if isinstance(v, dict):
        return {'d': [[k, enc(x)] for k, x in v.items()]}
    if isinstance(v, list):
        return {'l': [enc(x) for x in v]}
    return {'s': v}


def dec(e):
    if 'd' in e:
        return {k: dec(x) for k, x in e['d']}
    if 'l' in e:
        return [dec(x) for x in e['l']]
    return e['s']


def where_op(where):
    parts = where.split()
    return parts[3] if len(parts) > 3 else where


def same(a, b):
    """Equality with type and key-order sensitivity."""
    if isinstance(a, dict) and isinstance(b, dict):
        return list(a.keys()) == list(b.keys()) and all(type(x) is type(y) for x, y in zip(a.keys(), b.keys())) and all(same(a[k], b[k]) for k in a)
    if isinstance(a, list) and isinstance(b, list):
        return len(a) == len(b) and all(same(x, y) for x, y in zip(a, b))
    if isinstance(a, (dict, list)) or isinstance(b, (dict, list)):
        return False
    return type(a) is type(b) and (a == b or (a != a and b != b))


def op_values(op):
    out = []
    if 'v' in op:
        out.append(op['v'])
    for it in op.get('items', []):
        out.append(it[1] if isinstance(it, list) and len(it) == 2 and isinstance(it[1], dict) and 'k' in it[1] else it)
    return [v for v in out if isinstance(v, dict) and 'k' in v]


def prefix_states(pre, cpath, op, world):
    """Model states after applying 0..n items of a failed extend/update."""
    out = []
    items = op.get('items', [])
    if op['op'] == 'update' and op.get('form') == 'kwargs':
        items = [it for it in items if isinstance(it[0], str)]
    for n in range(len(items) + 1):
        st = copy.deepcopy(pre)
        node = st
        for c in cpath:
            node = node[c]
        ok = True
        for it in items[:n]:
            try:
                if op['op'] == 'extend':
                    mv, fk = world.model_value(it)
                    if fk:
                        ok = False
                        break
                    node.append(copy.deepcopy(mv))
                else:
                    k, vs = it
                    mv, fk = world.model_value(vs)
                    if fk or k in FORBIDDEN_KEYS:
                        ok = False
                        break
                    node[k] = copy.deepcopy(mv)
            except Exception:
                ok = False
                break
        if ok:
            out.append(st)
    return out


# each op function: (world, real, model, op, fault_kinds) -> (lib_fn, model_fn[, 'resync'])
# lib_fn performs the library call, model_fn the same Python operation on the model.

def _key_fault(k, fk):
    if k in FORBIDDEN_KEYS:
        fk.append('forbidden_key')


def _idx_fault(mod, k, fk, insert=False):
    if not isinstance(k, int):
        fk.append('non_integer_index')
    elif not (-len(mod) <= k < len(mod) + (1 if insert else 0)):
        fk.append('index_out_of_range')
    elif k < 0:
        fk.append('negative_index')


class ModelReject(Exception):
    pass


def _bad(f):
    def model_fn():
        raise ModelReject(f)
    return model_fn


def op_setitem(w, real, mod, op, fk):
    rv, mv, f = w.mk_value(op['v'])
    k = op['key']
    if f:
        fk.append(f)
    if isinstance(mod, dict):
        _key_fault(k, fk)
    else:
        _idx_fault(mod, k, fk)

    def lib():
        real[k] = rv

    def model():
        if f:
            raise ModelReject(f)
        mod[k] = mv
    return lib, model


def op_setattr(w, real, mod, op, fk):
    rv, mv, f = w.mk_value(op['v'])
    k = op['key']
    if f:
        fk.append(f)
    _key_fault(k, fk)

    def lib():
        setattr(real, k, rv)

    def model():
        if f:
            raise ModelReject(f)
        mod[k] = mv
    return lib, model


def op_delitem(w, real, mod, op, fk):
    k = op['key']
    if isinstance(mod, dict):
        if k not in mod:
            fk.append('missing_key')
    else:
        _idx_fault(mod, k, fk)

    def lib():
        del real[k]

    def model():
        del mod[k]
    return lib, model


def op_delattr(w, real, mod, op, fk):
    k = op['key']
    if k not in mod:
        fk.append('missing_key')

    def lib():
        delattr(real, k)

    def model():
        del mod[k]
    if isinstance(k, str) and k.startswith('_'):
        # 'del node._x' is about a Python attribute of the object, not (by Python's rules) about the entry '_x':
        # whatever the library decides, both views must still agree afterwards
        fk.append('underscore_attribute')
        return lib, (lambda: None), 'resync'
    return lib, model


def op_update(w, real, mod, op, fk):
    pairs = []
    for k, vs in op['items']:
        rv, mv, f = w.mk_value(vs)
        if f:
            fk.append(f)
        _key_fault(k, fk)
        pairs.append((k, rv, mv, f))
    form = op.get('form', 'mapping')
    after = op.get('after', 1)
    if form == 'self':
        return (lambda: real.update(real)), (lambda: mod.update(mod))
    if form == 'from_node':
        try:
            src_r, src_m = w.r_at(op['src']), w.m_at(op['src'])
        except (KeyError, IndexError, TypeError):
            src_r, src_m = None, None
        if not isinstance(src_m, dict) or src_m is mod or any(w._would_cycle(op['at'], {'k': 'node_at', 'path': op['src'] + [k]}) for k in src_m):
            return (lambda: None), (lambda: None)
        for k in src_m:
            _key_fault(k, fk)
        return (lambda: real.update(src_r)), (lambda: mod.update(src_m))
    if form == 'kwargs':
        pairs = [p for p in pairs if isinstance(p[0], str)]
    if form == 'raising_iter':
        fk.append('iterator_raises')
    if form == 'bad_mapping':
        fk.append('items_raises')

    def lib():
        if form == 'mapping':
            real.update({k: rv for k, rv, _, _ in pairs})
        elif form == 'pairs':
            real.update([(k, rv) for k, rv, _, _ in pairs])
        elif form == 'kwargs':
            real.update({}, **{k: rv for k, rv, _, _ in pairs})
        elif form == 'raising_iter':
            real.update(_RaisingIter([(k, rv) for k, rv, _, _ in pairs], after))
        elif form == 'bad_mapping':
            real.update(_BadMapping({k: rv for k, rv, _, _ in pairs}))

    def model():
        if form == 'bad_mapping':
            raise ModelReject('items() raises')
        for i, (k, _, mv, f) in enumerate(pairs):
            if form == 'raising_iter' and i >= after:
                raise ModelReject('iterator raises')
            if f:
                raise ModelReject(f)
            mod[k] = mv
        if form == 'raising_iter' and after <= len(pairs):
            raise ModelReject('iterator raises')
    return lib, model


def op_setdefault(w, real, mod, op, fk):
    rv, mv, f = w.mk_value(op['v'])
    k = op['key']
    if k not in mod:
        _key_fault(k, fk)
        if f:
            fk.append(f)

    def lib():
        got = real.setdefault(k, rv)
        exp = dict.get(real, k)
        if got is not exp:
            raise Violation('setdefault.result', f'setdefault({k!r}) returned {got!r}, not the stored node {exp!r}', op='setdefault')

    def model():
        if k not in mod:
            if f:
                raise ModelReject(f)
            mod[k] = mv
    return lib, model


def op_pop(w, real, mod, op, fk):
    k = op.get('key')
    if isinstance(mod, dict):
        if k not in mod:
            fk.append('missing_key')
        if op.get('default'):
            return (lambda: real.pop(k, None)), (lambda: mod.pop(k, None))
        return (lambda: real.pop(k)), (lambda: mod.pop(k))
    if k is None:
        if not mod:
            fk.append('index_out_of_range')
        return (lambda: real.pop()), (lambda: mod.pop())
    _idx_fault(mod, k, fk)
    return (lambda: real.pop(k)), (lambda: mod.pop(k))


def op_clear(w, real, mod, op, fk):
    if op.get('how') == 'ayns':
        return real.ayns.clear, mod.clear
    return real.clear, mod.clear


def op_append(w, real, mod, op, fk):
    rv, mv, f = w.mk_value(op['v'])
    if f:
        fk.append(f)
    return (lambda: real.append(rv)), (_bad(f) if f else (lambda: mod.append(mv)))


def op_insert(w, real, mod, op, fk):
    rv, mv, f = w.mk_value(op['v'])
    if f:
        fk.append(f)
    k = op['key']
    _idx_fault(mod, k, fk, insert=True)
    return (lambda: real.insert(k, rv)), (_bad(f) if f else (lambda: mod.insert(k, mv)))


def op_extend(w, real, mod, op, fk):
    vals = []
    for vs in op['items']:
        rv, mv, f = w.mk_value(vs)
        if f:
            fk.append(f)
        vals.append((rv, mv, f))
    form = op.get('form', 'list')
    after = op.get('after', 1)
    if form == 'raising_iter':
        fk.append('iterator_raises')
    if form == 'self':
        return (lambda: real.extend(real)), (lambda: mod.extend(mod))
    if form == 'from_node':
        try:
            src_r, src_m = w.r_at(op['src']), w.m_at(op['src'])
        except (KeyError, IndexError, TypeError):
            src_r, src_m = None, None
        if not isinstance(src_m, list) or src_m is mod or any(w._would_cycle(op['at'], {'k': 'node_at', 'path': op['src'] + [i]}) for i in range(len(src_m))):
            return (lambda: None), (lambda: None)
        return (lambda: real.extend(src_r)), (lambda: mod.extend(list(src_m)))

    def lib():
        if form == 'raising_iter':
            real.extend(_RaisingIter([rv for rv, _, _ in vals], after))
        elif form == 'generator':
            real.extend(rv for rv, _, _ in vals)
        else:
            real.extend([rv for rv, _, _ in vals])

    def model():
        for i, (_, mv, f) in enumerate(vals):
            if form == 'raising_iter' and i >= after:
                raise ModelReject('iterator raises')
            if f:
                raise ModelReject(f)
            mod.append(mv)
        if form == 'raising_iter' and after <= len(vals):
            raise ModelReject('iterator raises')
    return lib, model


def op_remove(w, real, mod, op, fk):
    # remove by value: the value at index i of the model (or a value that is absent)
    i = op['key']
    if isinstance(i, int) and 0 <= i < len(mod) and not isinstance(mod[i], (dict, list)):
        v = mod[i]
    else:
        v = 'absent-value'
        if v not in mod:
            fk.append('missing_value')

    def model():
        # Python's list.remove uses ==, under which True == 1 == 1.0; so does the node list. Same call on both.
        mod.remove(v)
    return (lambda: real.remove(v)), model


def op_set_child(w, real, mod, op, fk):
    rv, mv, f = w.mk_value(op['v'])
    if f:
        fk.append(f)
    k = op['key']
    if isinstance(mod, dict):
        _key_fault(k, fk)

        def model():
            if f:
                raise ModelReject(f)
            mod[k] = mv
        return (lambda: real.ayns.set_child(k, rv)), model
    if not isinstance(k, int):
        fk.append('non_integer_index')
    elif not (-len(mod) <= k <= len(mod)):
        fk.append('index_out_of_range_unspecified')
        return (lambda: real.ayns.set_child(k, rv)), (lambda: None), 'resync'

    def model():
        if f:
            raise ModelReject(f)
        if k == len(mod):
            mod.append(mv)
        else:
            mod[k] = mv
    return (lambda: real.ayns.set_child(k, rv)), model


def op_remove_child(w, real, mod, op, fk):
    k = op['key']
    if isinstance(mod, dict):
        if k not in mod:
            fk.append('missing_key')
    else:
        _idx_fault(mod, k, fk)

    def model():
        del mod[k]
    return (lambda: real.ayns.remove_child(k)), model


def op_rename_child(w, real, mod, op, fk):
    old, new = op['key'], op['new']
    if isinstance(mod, dict):
        if old not in mod:
            fk.append('missing_key')
        if new in mod:
            fk.append('key_exists')
        _key_fault(new, fk)
    else:
        fk.append('rename_in_list')
    # position of the renamed entry (dict) / meaning for a list is not specified: invariants only, then resync
    return (lambda: real.ayns.rename_child(old, new)), (lambda: None), 'resync'


def op_remove_node(w, real, mod, op, fk):
    # the path-based form of remove_child (a one-component path from this container)
    k = op['key']
    if isinstance(mod, dict):
        if k not in mod:
            fk.append('missing_key')
    else:
        _idx_fault(mod, k, fk)
    return (lambda: real.ayns.remove_node([k])), (lambda: None), 'resync'


def op_replace_node(w, real, mod, op, fk):
    # not implemented by the pinned library (NotImplementedError): then nothing may change; if it does something, the invariants decide
    rv, mv, f = w.mk_value(op['v'])
    if f:
        fk.append(f)
    fk.append('replace_node')
    return (lambda: real.ayns.replace_node(rv, [op['key']])), (lambda: None), 'resync'


OPS = {
    'remove_node': op_remove_node, 'replace_node': op_replace_node,
    'setitem': op_setitem, 'setattr': op_setattr, 'delitem': op_delitem, 'delattr': op_delattr, 'update': op_update,
    'setdefault': op_setdefault, 'pop': op_pop, 'clear': op_clear, 'append': op_append, 'insert': op_insert,
    'extend': op_extend, 'remove': op_remove, 'set_child': op_set_child, 'remove_child': op_remove_child,
    'rename_child': op_rename_child,
}
DICT_OPS = {'setattr', 'delattr', 'update', 'setdefault'}
LIST_OPS = {'append', 'insert', 'extend', 'remove'}


def replay_ops(ops, initial=0):
    """Run an explicit operation list; returns (violation or None, world)."""
    w = World(initial)
    try:
        w.check('initially')
        for op in ops:
            w.apply(copy.deepcopy(op))
    except Violation as v:
        return v, w
    return None, w


# ---------------------------------------------------------------------------------------------
# Hypothesis machine

_LAST = {'ops': None, 'initial': 0, 'violation': None, 'examples': 0, 'faults': {}, 'ops_total': 0, 'digests': set(), 'samples': []}


def _build_machine(max_steps):
    import hypothesis.strategies as st
    from hypothesis.stateful import RuleBasedStateMachine, rule, initialize, precondition

    scalars = st.one_of(st.integers(-5, 50), st.sampled_from([0.5, -2.25, 3.0]), st.booleans(), st.none(),
                        st.sampled_from(['s', '', 'text value', '12']))
    py_values = st.recursive(scalars, lambda ch: st.one_of(st.lists(ch, max_size=3),
                                                           st.dictionaries(st.sampled_from(['a', 'b', 'k1', 0, 1]), ch, max_size=3)), max_leaves=6)
    keys = st.sampled_from(GOOD_KEYS)
    any_keys = st.one_of(*([keys] * 11), st.sampled_from(FORBIDDEN_KEYS))
    indices = st.one_of(st.integers(-4, 6), st.integers(-4, 6), st.sampled_from([100, -100, 'x', 1.5]))
    sel = st.integers(0, 10 ** 6)

    @st.composite
    def values(draw):
        c = draw(st.integers(0, 19))
        if c == 0:
            return {'k': 'bad'}
        if c in (1, 2):
            return {'k': 'node_at', 'sel': draw(sel)}
        if c == 3:
            return {'k': 'copy_of', 'sel': draw(sel)}
        if c == 5:
            return {'k': 'copy_of', 'sel': draw(sel), 'via': 'method'}       # node.copy() instead of copy.copy(node)
        if c == 4:
            return {'k': 'lazy', 'n': draw(st.integers(3, 8))}
        return {'k': 'py', 'v': enc(draw(py_values))}

    class Machine(RuleBasedStateMachine):
        def __init__(self):
            super().__init__()
            self.w = World()
            _LAST['examples'] += 1

        @initialize(idx=st.integers(0, len(INITIAL_DOCS) - 1))
        def start_tree(self, idx):
            self.w = World(idx)
            try:
                self.w.check('initially')
            except Violation as v:
                _LAST['ops'] = []
                _LAST['initial'] = idx
                _LAST['violation'] = {'rule': v.rule, 'msg': v.msg, 'features': v.features}
                raise

        def _pick(self, s, want=None):
            cs = self.w.containers()
            if want is not None:
                cs = [c for c in cs if isinstance(self.w.m_at(c), want)]
                if not cs:
                    return None
            return cs[s % len(cs)]

        def _resolve(self, v):
            if v.get('k') in ('node_at', 'copy_of') and 'path' not in v:
                # any existing node: pick a container path, then maybe one of its entries
                cs = self.w.containers()
                p = cs[v['sel'] % len(cs)]
                node = self.w.m_at(p)
                ks = list(node.keys()) if isinstance(node, dict) else list(range(len(node)))
                if ks and (v['sel'] // 7) % 2:
                    p = p + [ks[(v['sel'] // 13) % len(ks)]]
                if not p:
                    return {'k': 'py', 'v': enc(0)}
                return {'k': v['k'], 'path': p, **({'via': v['via']} if 'via' in v else {})}
            return v

        def _do(self, op):
            if op['at'] is None:
                return
            try:
                self.w.apply(op)
            except Violation as v:
                _LAST['ops'] = copy.deepcopy(self.w.ops)
                _LAST['initial'] = self.w.initial
                _LAST['violation'] = {'rule': v.rule, 'msg': v.msg, 'features': v.features}
                raise

        def teardown(self):
            for k, n in self.w.faults.items():
                _LAST['faults'][k] = _LAST['faults'].get(k, 0) + n
            _LAST['ops_total'] += len(self.w.ops)
            if self.w.changes >= 2 or self.w.faults:
                _LAST['digests'].add(core.digest(self.w.ops))
            if len(_LAST['samples']) < 2 and len(self.w.ops) >= 4:
                _LAST['samples'].append(copy.deepcopy(self.w.ops[:12]))

        @rule(s=sel, key=any_keys, v=values(), how=st.sampled_from(['item', 'attr', 'child', 'item', 'attr', 'child', 'node']))
        def d_set(self, s, key, v, how):
            at = self._pick(s, dict)
            name = {'item': 'setitem', 'attr': 'setattr', 'child': 'set_child', 'node': 'replace_node'}[how]
            if how == 'attr' and (not isinstance(key, str) or key.startswith('_')):
                name = 'setitem'
            self._do({'op': name, 'at': at, 'key': key, 'v': self._resolve(v)})

        @rule(s=sel, key=keys, ks=sel, how=st.sampled_from(['item', 'attr', 'child', 'pop', 'pop_default', 'node']))
        def d_del(self, s, key, ks, how):
            at = self._pick(s, dict)
            node = self.w.m_at(at)
            if isinstance(node, dict) and node and ks % 4:
                key = list(node.keys())[ks % len(node)]
            name = {'item': 'delitem', 'attr': 'delattr', 'child': 'remove_child', 'pop': 'pop', 'pop_default': 'pop', 'node': 'remove_node'}[how]
            if name == 'delattr' and (not isinstance(key, str) or key == '_children'):
                name = 'delitem'       # (deleting the attribute the node keeps its children in is not a container operation)
            op = {'op': name, 'at': at, 'key': key}
            if how == 'pop_default':
                op['default'] = True
            self._do(op)

        @rule(s=sel, items=st.lists(st.tuples(any_keys, values()), max_size=4),
              form=st.sampled_from(['mapping', 'mapping', 'pairs', 'kwargs', 'raising_iter', 'bad_mapping', 'self', 'from_node']), after=st.integers(0, 3), srcsel=sel)
        def d_update(self, s, items, form, after, srcsel):
            at = self._pick(s, dict)
            seen = []
            its = []
            for k, v in items:
                if k in seen:
                    continue
                seen.append(k)
                its.append([k, self._resolve(v)])
            if form == 'bad_mapping':
                its = [it for it in its if not (isinstance(it[0], str) and len(it[0]) == 2)]
            op = {'op': 'update', 'at': at, 'items': its, 'form': form, 'after': after}
            if form == 'from_node':
                op['src'] = self._pick(srcsel, dict)
                op['items'] = []
            self._do(op)

        @rule(s=sel, key=any_keys, v=values())
        def d_setdefault(self, s, key, v):
            self._do({'op': 'setdefault', 'at': self._pick(s, dict), 'key': key, 'v': self._resolve(v)})

        @rule(s=sel, old=keys, ks=sel, new=any_keys)
        def d_rename(self, s, old, ks, new):
            at = self._pick(s)
            node = self.w.m_at(at)
            if isinstance(node, dict) and node and ks % 4:
                old = list(node.keys())[ks % len(node)]
            elif isinstance(node, list):
                old = ks % (len(node) + 1)
                new = (ks // 5) % (len(node) + 2)
            self._do({'op': 'rename_child', 'at': at, 'key': old, 'new': new})

        @rule(s=sel, how=st.sampled_from(['method', 'ayns']))
        def c_clear(self, s, how):
            self._do({'op': 'clear', 'at': self._pick(s), 'how': how})

        @rule(s=sel, v=values())
        def l_append(self, s, v):
            self._do({'op': 'append', 'at': self._pick(s, list), 'v': self._resolve(v)})

        @rule(s=sel, i=indices, v=values(), how=st.sampled_from(['insert', 'insert', 'setitem', 'set_child', 'insert', 'setitem', 'set_child', 'replace_node']))
        def l_put(self, s, i, v, how):
            self._do({'op': how, 'at': self._pick(s, list), 'key': i, 'v': self._resolve(v)})

        @rule(s=sel, i=st.one_of(indices, st.none()), how=st.sampled_from(['delitem', 'pop', 'remove_child', 'remove', 'remove_node']))
        def l_del(self, s, i, how):
            if i is None and how != 'pop':
                i = 0
            self._do({'op': how, 'at': self._pick(s, list), 'key': i})

        @rule(s=sel, items=st.lists(values(), max_size=4), form=st.sampled_from(['list', 'list', 'generator', 'raising_iter', 'self', 'from_node']), after=st.integers(0, 3), srcsel=sel)
        def l_extend(self, s, items, form, after, srcsel):
            op = {'op': 'extend', 'at': self._pick(s, list), 'items': [self._resolve(v) for v in items], 'form': form, 'after': after}
            if form == 'from_node':
                op['src'] = self._pick(srcsel, list)
                op['items'] = []
            self._do(op)

    return Machine


def _hyp_child(sc, tier):
    """Child: one Hypothesis run with PRNG value sc['hyp_seed']."""
    import hypothesis
    from hypothesis import settings, HealthCheck, Phase
    from hypothesis.stateful import run_state_machine_as_test
    p = TIERS[tier]
    Machine = _build_machine(p['steps'])
    stg = settings(max_examples=sc.get('examples', p['examples']), stateful_step_count=p['steps'], database=None, deadline=None,
                   report_multiple_bugs=False, suppress_health_check=list(HealthCheck), derandomize=False,
                   phases=[Phase.generate, Phase.shrink], print_blob=False)
    err = None
    box = {}

    def client():
        try:
            run_state_machine_as_test(hypothesis.seed(sc['hyp_seed'])(Machine), settings=stg)
        except Violation:
            box['err'] = 'violation'
        except BaseException:   # hypothesis wraps/re-raises; anything that is not ours is a harness error
            if _LAST['violation'] is None:
                import traceback
                box['harness'] = traceback.format_exc()[-3000:]
            box['err'] = 'violation'
    from .. import sched
    sch = sched.Scheduler({'policy': 'serial'}, opcodes=False)
    sch.run([client])
    if box.get('harness'):
        return {'harness': box['harness']}
    err = box.get('err')
    out = {'examples': _LAST['examples'], 'faults': _LAST['faults'], 'ops_total': _LAST['ops_total'],
           'digests': sorted(_LAST['digests'])[:4000], 'samples': _LAST['samples']}
    if err:
        out['violation'] = _LAST['violation']
        out['ops'] = _LAST['ops']
        out['initial'] = _LAST['initial']
    return out


def _replay_child(ops, initial=0):
    from .. import sched
    box = []
    sch = sched.Scheduler({'policy': 'serial'}, opcodes=False)
    sch.run([lambda: box.append(replay_ops(ops, initial))])
    v, w = box[0]
    out = {'faults': w.faults, 'ops_total': len(w.ops), 'stats': w.stats,
           'digests': [core.digest(w.ops)] if (w.changes >= 2 or w.faults) else []}
    if v is not None:
        out['violation'] = {'rule': v.rule, 'msg': v.msg, 'features': v.features}
    return out


def generate(r, tier, index):
    # every sixth run happens in a re-executed interpreter started with -O (assert statements stripped)
    return {'hyp_seed': r.getrandbits(48), 'tier': tier, 'optimised': index % 6 == 5}


def _optimised_call(which, args, timeout):
    import subprocess
    import sys
    env = dict(os.environ)
    env['PYTHONPATH'] = core.VERIF
    env['PYTHONDONTWRITEBYTECODE'] = '1'
    env.setdefault('PYTHONHASHSEED', '0')
    try:
        p = subprocess.run([sys.executable, '-O', '-c', 'from aysim.props import c17; c17._o_worker()'], input=json.dumps({'which': which, 'args': args}).encode(),
                           env=env, stdout=subprocess.PIPE, stderr=subprocess.PIPE, timeout=timeout, cwd=core.VERIF)
    except subprocess.TimeoutExpired:
        return {'status': 'timeout', 'error': 'no answer from the -O interpreter'}
    if p.returncode != 0:
        return {'status': 'error', 'error': p.stderr.decode()[-800:]}
    return {'status': 'ok', 'value': json.loads(p.stdout.decode().strip().splitlines()[-1])}


def _o_worker():
    import sys
    core.bootstrap()
    stripped = True
    assert not (stripped := False) or True
    req = json.loads(sys.stdin.read())
    out = _replay_child(*req['args']) if req['which'] == 'replay' else _hyp_child(*req['args'])
    if not stripped:
        out = {'harness': 'the -O worker did not run with assertions stripped'}
    print(json.dumps(out, default=repr))


def execute(sc):
    res = core.ok_result()
    st = res['stats']
    if sc.get('optimised'):
        st.setdefault('probes', {})['interpreter_with_-O'] = 1
        c = _optimised_call('replay', [sc['ops'], sc.get('initial', 0)], 120) if 'ops' in sc else _optimised_call('hyp', [sc, sc.get('tier', 'quick')], 1200)
    elif 'ops' in sc:
        c = core.fork_call(_replay_child, (sc['ops'], sc.get('initial', 0)), timeout=60)
    else:
        c = core.fork_call(_hyp_child, (sc, sc.get('tier', 'quick')), timeout=900)
    if c['status'] != 'ok':
        res['harness'] = f'{c["status"]}: {c.get("error", c.get("signal", ""))}'
        return res
    v = c['value']
    if v.get('harness'):
        res['harness'] = v['harness']
        return res
    st['examples'] = v.get('examples', 1)
    st['runs_n'] = 1
    st['ops'] = v['ops_total']
    st['faults'] = v['faults']
    res['keys'] = v['digests']
    if v.get('samples'):
        res['sample'] = {'operations': v['samples'][0]}
    if 'violation' in v:
        vi = v['violation']
        res['violations'].append(core.violation(vi['rule'], vi['msg'], **vi['features']))
        if 'ops' in v:
            sc['ops'] = v['ops']
            sc['initial'] = v.get('initial', 0)
    return res


def shrink(sc):
    ops = sc.get('ops') or []
    for i in range(len(ops) - 1, -1, -1):
        c = dict(sc)
        c['ops'] = ops[:i] + ops[i + 1:]
        yield c
    for i, op in enumerate(ops):
        if op.get('items') and len(op['items']) > 1:
            for j in range(len(op['items'])):
                c = dict(sc)
                c['ops'] = copy.deepcopy(ops)
                del c['ops'][i]['items'][j]
                yield c


def det_view(res):
    """What must reproduce exactly when a run is executed again. For a run that found a violation Hypothesis then
    shrinks under its own wall-clock limits, so the amount of work (examples, operations) is not a function of the
    seed; the verdict is."""
    if res['violations']:
        return {'rules': sorted({v['rule'] for v in res['violations']})}
    return {'violations': [], 'stats': res['stats'], 'keys': res['keys'], 'harness': bool(res.get('harness'))}


def evidence_extra(stats):
    return {'evaluations': int(stats.get('examples', 0)), 'hypothesis_runs_one_prng_value_each': int(stats.get('runs_n', 0)) or None,
            'operations_applied': stats.get('ops', 0)}


def reach_problems(stats, tier):
    f = stats.get('faults', {})
    probs = []
    for need in ('index_out_of_range', 'negative_index', 'non_integer_index', 'missing_key', 'forbidden_key', 'unconvertible_value',
                 'iterator_raises', 'items_raises'):
        if not f.get(need):
            probs.append(f'fault kind {need} never fired')
    return probs
