"""C15 - merge laws: deterministic, idempotent, empty-neutral, order- and flag-neutral.

"Building the same sources twice gives equal results" is a statement about nondeterminism: the
scenario's sources are built in a pristine forked process (the reference) and then again
  * twice in a row in one process, after a seeded prior history of unrelated builds some of which
    fail in parsing, merging or evaluation (all process-wide and thread-local state has been used
    and possibly left dirty), in the main thread and in a fresh thread,
  * under garbage-collector / allocation perturbation at a seeded subset of execution points
    (address reuse is what the id()-keyed memo tables must be immune to),
  * in interpreters started with other PYTHONHASHSEED values;
all results (evaluated config with key order, merged tree with flags) must be equal.
The four relational laws of the statement ride along in the same runs as oracle of the workload:
repeat the last document, insert {} anywhere, permute keys, mark nodes !unsafe / !new.
"""
import os
import sys
import copy
import json
import subprocess

from .. import core, sched, simfs, recorder, observe, emit, gen
from ..emit import m, q, s, raw

ID = 'C15'
RULE = ('a case = a sequence of 1-4 mapping documents over the priority / !del / !merge vocabulary; it is built in a pristine fork (reference) and re-built '
        'under: a seeded prior process history (1-3 other builds, some failing in parse / merge / evaluation) twice in a row, in a fresh thread, with '
        'GC/allocation perturbation at seeded execution points, and in interpreters with other PYTHONHASHSEED values; plus the related sequences '
        '(last document repeated, {} inserted at every position, keys of every mapping permuted, random untagged nodes marked !unsafe / !new); '
        'non-trivial iff the sequence has >= 2 documents that write a common path, or at least one prior build of the history failed; '
        'distinct = distinct digest of (documents, history, perturbation plan)')
ASSUMPTIONS = [
    'explicit !del is generated on non-empty containers only: an explicit !del on a value-less, empty or falsy node is the intentional remove-this-key idiom, which the statement excludes from idempotence',
    'the documents the laws are checked on contain no dynamic nodes: evaluated config == merged data, so !unsafe markers cannot change the outcome by refusing evaluation; '
    'the determinism variants (history, thread, perturbation, other interpreters) of a seeded third of the scenarios build one more document holding a !call / !bind whose arguments are given by position (with and without gaps) and by name',
    'hash-seed variation re-executes the interpreter (PYTHONHASHSEED must be set before start); it is done for a seeded quarter of the scenarios',
]
TIERS = {
    'quick': {'runs': 1100, 'wall_cap': 75, 'chunk': 8, 'min_budget': 50, 'min_each': 25},
    'thorough': {'runs': 40000, 'wall_cap': 900, 'chunk': 16, 'min_budget': 200, 'min_each': 60},
}


# ---------------------------------------------------------------------------------------------
# generation

def _gen_docs(r, n=None, prefix=''):
    n = n or r.choice([1, 2, 2, 3, 3, 4])
    tags = ('!force', '!weak', '!del', '!merge') if r.random() < 0.6 else ('!force', '!weak', '!del', '!merge', '!new', '!unsafe')
    g = gen.DocGen(r, prefix='', tags=tags, p_tag=r.choice([0.0, 0.15, 0.3]), max_depth=3,
                   keys=['a', 'b', 'c'], key_space=['x', 'y', 'a', 0, 1])
    docs = []
    for i in range(n):
        g.prefix = f'{prefix}d{i}_'
        d = g.mapping(0, min_keys=1, max_keys=3)
        if r.random() < 0.5:
            d['items'].append(['lst', emit.q([g.value(2) for _ in range(r.randrange(1, 4))], r.choice([None, None, '!merge', '!del', '!force']))])
        if r.random() < 0.15:
            # a block scalar whose text looks like a number / bool / null: it is a string, with or without a marker tag
            d['items'].append([r.choice([k for k in ('blk', 'a', 'c') if k not in [kk for kk, _ in d['items']]]), {'k': 'blk', 'tag': None, 'style': r.choice(['|-', '|', '>-']),
                                                              'text': r.choice(['123', '4.5', 'true', 'null', '~', '0x1F', 'plain text'])}])
        d = _sanitise(d, top=True)
        if r.random() < 0.1 and d['items']:
            d['tag'] = r.choice(['!del', '!del', '!merge', '!force', '!weak'])      # a marker on the document itself
        docs.append(d)
    return docs


def _sanitise(node, top=False):
    """Keep explicit !del off value-less / empty / scalar nodes (the remove-this-key idiom is excluded by the statement)."""
    k = node['k']
    if k in ('map', 'seq'):
        if node.get('tag') == '!del' and not node['items']:
            node['tag'] = None
        if top:
            node['tag'] = None
        for it in node['items']:
            _sanitise(it[1] if k == 'map' else it)
    elif k == 's':
        if node.get('tag') == '!del':
            node['tag'] = None
    return node


def _gen_history(r):
    out = []
    for _ in range(r.randrange(0, 4)):
        c = r.randrange(11)
        if c >= 7:
            docs = _gen_docs(r, n=r.randrange(1, 3), prefix='h')
            texts = [emit.emit_doc(d) for d in docs]
            if c == 10:
                texts.append('!notnew {never_defined_anywhere: 1}\n')      # the random build then fails while merging
            out.append({'kind': 'random_docs' + ('_failing' if c == 10 else ''), 'texts': texts})
        elif c == 0:
            out.append({'kind': 'parse_error', 'texts': ['{h1: 1}\n---\n{h2: [1, 2\n']})
        elif c == 1:
            out.append({'kind': 'merge_error', 'texts': ['{h: [1, 2]}\n', '{h: {7: x}}\n']})
        elif c == 2:
            out.append({'kind': 'eval_error', 'texts': ['{h: !xref missing.path, g: 2}\n']})
        elif c == 3:
            out.append({'kind': 'unsafe_error', 'texts': ['{h: !unsafe !call:simrec.f_h []}\n'] if False else ['{u: !unsafe {h: !call:simrec.f_h {}}}\n']})
        elif c == 4:
            out.append({'kind': 'ok_unsafe_source', 'texts': ['{a: {x: !force 1}, lst: !del [1, 2]}\n', '{a: !weak {x: 2, y: 3}}\n'], 'safe': False})
        elif c == 5:
            out.append({'kind': 'ok_eval', 'texts': ['{a: 2, e: !eval "a + 1", c: !call:simrec.f_ok {v: !xref a}}\n']})
        else:
            out.append({'kind': 'ok_plain', 'texts': ['{b: [1, {y: 2}], c: {x: {y: 1}}}\n', '{b: !merge [9], c: !del {z: 1}}\n']})
    return out


def _gen_dyn(r):
    """One more document for the determinism variants only (the laws are about data): a call whose arguments are given by
    position - contiguous or with gaps -, by name, or both."""
    idxs = sorted(r.sample(range(4), r.randrange(1, 4)))
    items = [f'{i}: "pos{i}"' for i in idxs]
    if r.random() < 0.5:
        items.append('extra_kw: 5')
    r.shuffle(items)
    kind = r.choice(['!call', '!call', '!bind'])
    return m([['dynamic_entry', raw(f'{kind}:simrec.positional {{' + ', '.join(items) + '}')]])


def _det_docs(sc):
    return sc['docs'] + ([sc['dyn']] if sc.get('dyn') else [])


def generate(r, tier, index):
    docs = _gen_docs(r)
    return {'docs': docs, 'history': _gen_history(r), 'dyn': _gen_dyn(r) if r.random() < 0.35 else None,
            'perturb': {'every': r.choice([100, 400, 2000]), 'seed': r.getrandbits(30), 'gc': r.choice(['default', 'default', 'disabled', 'aggressive']),
                        'collect': r.random() < 0.6},
            'hashseeds': [1, r.randrange(2, 4000000)] if r.random() < 0.25 else [],
            'law_seed': r.getrandbits(30), 'route': r.choice(['text', 'text', 'multidoc', 'files'])}


# ---------------------------------------------------------------------------------------------
# building (runs inside forked children and inside the hash-seed workers)

def _sources(docs, route):
    if route == 'multidoc':
        return {}, [{'text': emit.emit_stream(docs), 'filename': None}]
    if route == 'files':
        files = {f'/w/c15/d{i}.yaml': emit.emit_doc(d) for i, d in enumerate(docs)}
        return files, [{'path': p} for p in sorted(files)]
    return {}, [{'text': emit.emit_doc(d), 'filename': None} for d in docs]


def build_observe(docs, route='text', fs=None):
    """-> {'status', 'cfg', 'tree' | 'exc'} for one build of the document sequence."""
    from awesomeyaml import Builder, Config
    files, srcs = _sources(docs, route)
    if fs is not None:
        fs.files.update(files)
    out = {}
    try:
        b = Builder()
        for sr in srcs:
            if 'path' in sr:
                b.add_source(sr['path'], raw_yaml=False)
            else:
                b.add_source(sr['text'], raw_yaml=True, filename=sr['filename'])
        root = b.build()
        out['tree'] = core.digest(observe.tree_records(root)) if root is not None else None
        out['tree_sample'] = observe.tree_records(root)[:40] if root is not None else None
        cfg = Config(root)
        out['cfg'] = observe.native(cfg)
        out['status'] = 'ok'
    except Exception as e:
        out['status'] = 'error'
        out['exc'] = {'type': type(e).__name__, 'msg': observe.norm_text(e)[:400]}
    return out


def _run_history(history):
    from awesomeyaml import Builder, Config
    outcomes = []
    for h in history:
        try:
            b = Builder()
            for t in h['texts']:
                b.add_source(t, raw_yaml=True, safe=h.get('safe'))
            Config(b.build())
            outcomes.append('ok')
        except Exception as e:
            outcomes.append(type(e).__name__)
    return outcomes


def _variant_child(sc, mode):
    """mode: 'reference' | 'history_twice' | 'thread' | 'perturbed'."""
    import gc
    import threading
    fs = simfs.SimFS({}, cwd='/w').install()
    recorder.install()
    docs, route = _det_docs(sc), sc['route']
    res = {'mode': mode}
    if mode == 'reference':
        res['builds'] = [build_observe(docs, route, fs)]
        res['builds'].append(build_observe(sc['docs'], route, fs) if sc.get('dyn') else res['builds'][0])    # what the laws compare with
        return res
    if mode == 'history_twice':
        res['history'] = _run_history(sc['history'])
        res['builds'] = [build_observe(docs, route, fs), build_observe(docs, route, fs)]
        return res
    if mode == 'thread':
        res['history'] = _run_history(sc['history'])
        box = []
        t = threading.Thread(target=lambda: box.append(build_observe(docs, route, fs)))
        t.start()
        t.join()
        box.append(build_observe(docs, route, fs))   # and once more in the main thread afterwards
        res['builds'] = box
        return res
    if mode == 'perturbed':
        pt = sc['perturb']
        if pt['gc'] == 'disabled':
            gc.disable()
        elif pt['gc'] == 'aggressive':
            gc.set_threshold(1, 1, 1)
        box = []

        def client():
            sched.begin_op('build', 5_000_000)
            box.append(build_observe(docs, route, fs))
            sched.end_op()
        sch = sched.Scheduler({'policy': 'serial', 'perturb': pt}, opcodes=False)
        sch.run([client])
        res['builds'] = box
        res['perturbations'] = sch.perturbations
        res['lines'] = sum(t.lines for t in sch.threads)
        return res
    raise ValueError(mode)


def _law_child(sc, variants):
    """Build several related document sequences in one forked process each... (one fork for all: they are independent builds)."""
    fs = simfs.SimFS({}, cwd='/w').install()
    recorder.install()
    return [build_observe(v, 'text', fs) for v in variants]


# ---------------------------------------------------------------------------------------------
# related sequences

def _permute_keys(node, r):
    node = copy.deepcopy(node)

    def walk(n):
        if n['k'] == 'map':
            r.shuffle(n['items'])
            for it in n['items']:
                walk(it[1])
        elif n['k'] == 'seq':
            for it in n['items']:
                walk(it)
    walk(node)
    return node


def _mark(node, r, tag, p=0.3):
    node = copy.deepcopy(node)
    n_marked = [0]

    def walk(n, top):
        if n['k'] in ('map', 'seq', 's', 'blk') and not n.get('tag') and not top and r.random() < (p if n['k'] != 'blk' else 0.7):
            n['tag'] = tag
            n_marked[0] += 1
            if n['k'] == 's' and n['v'] is None:
                n['explicit_null'] = True      # "!unsafe null", not the value-less "!unsafe"
        if n['k'] == 'map':
            for it in n['items']:
                walk(it[1], False)
        elif n['k'] == 'seq':
            for it in n['items']:
                walk(it, False)
    walk(node, True)
    if tag == '!unsafe' and r.random() < 0.3 and not node.get('tag'):
        node['tag'] = tag       # the whole document (unless it carries a marker of its own: a node has one tag)
        n_marked[0] += 1
    return node, n_marked[0]


def _sorted_cfg(v):
    """Evaluated config with mapping entries sorted: equality up to key order."""
    if isinstance(v, dict) and '__dict__' in v:
        return {'__dict__': sorted(([_sorted_cfg(k), _sorted_cfg(x)] for k, x in v['__dict__']), key=lambda kv: json.dumps(kv[0], sort_keys=True)), '__t__': v['__t__']}
    if isinstance(v, dict) and '__seq__' in v:
        return {'__seq__': [_sorted_cfg(x) for x in v['__seq__']], '__t__': v['__t__']}
    return v


def _pattern(docs):
    """Coarse shape of a document sequence, used as a feature of law violations (known-finding predicates match on it)."""
    found = {'prio': False, 'seq': False, 'delmerge': False}

    def walk(n):
        t = n.get('tag')
        if t in ('!force', '!weak'):
            found['prio'] = True
        if t in ('!del', '!merge'):
            found['delmerge'] = True
        if n['k'] == 'map':
            for it in n['items']:
                walk(it[1])
        elif n['k'] == 'seq':
            found['seq'] = True
            for it in n['items']:
                walk(it)
    for d in docs:
        walk(d)
    if found['prio'] and found['seq']:
        return 'priority_tags_and_lists'
    if found['delmerge']:
        return 'del_or_merge_tag'
    return 'plain'


def related(sc):
    import random
    r = random.Random(sc['law_seed'])
    docs = sc['docs']
    out = []
    out.append(('idempotent', docs + [copy.deepcopy(docs[-1])], 'exact'))
    for pos in range(len(docs) + 1):
        out.append((f'empty@{pos}', docs[:pos] + [m([])] + docs[pos:], 'exact'))
    out.append(('permuted', [_permute_keys(d, r) for d in docs], 'sorted'))
    for tag in ('!unsafe', '!new'):
        marked = []
        total = 0
        for d in docs:
            d2, k = _mark(d, r, tag)
            marked.append(d2)
            total += k
        if total:
            out.append((tag, marked, 'exact'))
    return out


# ---------------------------------------------------------------------------------------------
# hash-seed workers

def hashseed_digest(docs, route, seed, optimise=False):
    payload = json.dumps({'docs': docs, 'route': route})
    env = dict(os.environ)
    env['PYTHONHASHSEED'] = str(seed)
    env['PYTHONPATH'] = core.VERIF
    env['PYTHONDONTWRITEBYTECODE'] = '1'
    p = subprocess.run([sys.executable] + (['-O'] if optimise else []) + ['-c', 'from aysim.props import c15; c15._hash_worker()'], input=payload.encode(), env=env,
                       stdout=subprocess.PIPE, stderr=subprocess.PIPE, timeout=120, cwd=core.VERIF)
    if p.returncode != 0:
        raise core.HarnessError(f'hash-seed worker failed: {p.stderr.decode()[-800:]}')
    return json.loads(p.stdout.decode().strip().splitlines()[-1])


def _hash_worker():
    core.bootstrap()
    data = json.loads(sys.stdin.read())
    fs = simfs.SimFS({}, cwd='/w').install()
    recorder.install()
    out = build_observe(data['docs'], data['route'], fs)
    out['hashseed'] = os.environ.get('PYTHONHASHSEED')
    out['hash_probe'] = hash('probe') % 1000
    print(json.dumps(out, default=repr))


# ---------------------------------------------------------------------------------------------
# oracle

def _same_build(a, b):
    if a['status'] != b['status']:
        return False, ('status', a['status'], b['status'])
    if a['status'] == 'error':
        return (a['exc']['type'] == b['exc']['type']), ('exception', a['exc'], b['exc'])
    if a['cfg'] != b['cfg']:
        return False, ('config', a['cfg'], b['cfg'])
    if a['tree'] != b['tree']:
        d = next(((x, y) for x, y in zip(a['tree_sample'], b['tree_sample']) if x != y), (None, None))
        return False, ('tree', d[0], d[1])
    return True, None


def _paths_written(doc, prefix=()):
    out = set()
    if doc['k'] == 'map':
        for k, v in doc['items']:
            out.add(prefix + (k,))
            out |= _paths_written(v, prefix + (k,))
    return out


def execute(sc):
    res = core.ok_result()
    st = res['stats']
    pr = st.setdefault('probes', {})
    oc = st.setdefault('outcomes', {})
    fl = st.setdefault('faults', {})

    def count(d, k, n=1):
        d[k] = d.get(k, 0) + n

    def child(mode):
        c = core.fork_call(_variant_child, (sc, mode), timeout=60)
        if c['status'] != 'ok':
            raise core.HarnessError(f'{mode}: {c["status"]} {c.get("error", c.get("signal", ""))}')
        st['runs'] = st.get('runs', 0) + 1
        return c['value']

    try:
        ref, ref_laws = child('reference')['builds']
        count(oc, 'reference:' + ref['status'])
        if sc.get('dyn'):
            count(pr, 'call_with_positional_arguments')
        nontrivial = False
        docs = sc['docs']
        if len(docs) >= 2:
            seen = set()
            for d in docs:
                pw = _paths_written(d)
                if pw & seen:
                    nontrivial = True
                seen |= pw
        # determinism variants
        focus = sc.get('focus')     # set once a violation was found: replays / shrinking re-run only the failing part
        for mode in ('history_twice', 'thread', 'perturbed'):
            if focus and focus != 'determinism.' + mode:
                continue
            v = child(mode)
            for h in v.get('history', []):
                if h != 'ok':
                    count(fl, 'prior_build_failed:' + h)
                    nontrivial = True
                else:
                    count(pr, 'prior_build_ok')
            if mode == 'perturbed':
                count(pr, 'perturbation_points', v.get('perturbations', 0))
                st['lines'] = st.get('lines', 0) + v.get('lines', 0)
                count(pr, 'gc:' + sc['perturb']['gc'])
            for bi, b in enumerate(v['builds']):
                ok, diff = _same_build(ref, b)
                if not ok:
                    res['violations'].append(core.violation(
                        'determinism.' + mode, f'building the same sources again ({mode}, build {bi}; history={v.get("history")}) differs from the pristine build in {diff[0]}: '
                        f'{json.dumps(diff[2])[:500]} (pristine) vs {json.dumps(diff[1])[:500]}', what=diff[0], build=bi))
                    break
            if res['violations']:
                break
        if not res['violations'] and (not focus or focus == 'determinism.hashseed'):
            for hi, hs in enumerate(sc['hashseeds']):
                # the second re-executed interpreter also runs with -O: results must not depend on interpreter flags either
                hb = hashseed_digest(_det_docs(sc), sc['route'], hs, optimise=(hi == 1))
                count(pr, 'hashseed_builds')
                if hi == 1:
                    count(pr, 'interpreter_with_-O')
                ok, diff = _same_build(ref, hb)
                if not ok:
                    res['violations'].append(core.violation('determinism.hashseed', f'PYTHONHASHSEED={hs}: result differs from the pristine build in {diff[0]}: {json.dumps(diff[1])[:400]} vs {json.dumps(diff[2])[:400]}', what=diff[0]))
                    break
        # relational laws
        ref = ref_laws
        if not res['violations'] and ref['status'] == 'ok' and (not focus or focus.startswith('law')):
            rel = related(sc)
            c = core.fork_call(_law_child, (sc, [v for _, v, _ in rel]), timeout=60)
            if c['status'] != 'ok':
                raise core.HarnessError(f'laws: {c["status"]} {c.get("error", "")}')
            st['runs'] += 1
            for (name, variant, cmp_), got in zip(rel, c['value']):
                law = name.split('@')[0]
                count(pr, 'law:' + law)
                if got['status'] != 'ok':
                    res['violations'].append(core.violation('law.' + law.strip('!'), f'{name}: the related sequence fails to build ({got["exc"]["type"]}: {got["exc"]["msg"][:300]}) while the original builds fine; '
                                                            f'documents: {[emit.emit(d) for d in variant]}', outcome='error', pattern=_pattern(docs), docs='single' if len(docs) == 1 else 'several'))
                    break
                a, b = got['cfg'], ref['cfg']
                if cmp_ == 'sorted':
                    a, b = _sorted_cfg(a), _sorted_cfg(b)
                if a != b:
                    res['violations'].append(core.violation('law.' + law.strip('!'), f'{name}: result {json.dumps(observe.plain(a))[:600]} differs from the original {json.dumps(b)[:600]}; '
                                                            f'original documents: {[emit.emit(d) for d in docs]}; related: {[emit.emit(d) for d in variant]}', outcome='differs', pattern=_pattern(docs), docs='single' if len(docs) == 1 else 'several'))
                    break
        if nontrivial:
            res['keys'].append(core.digest([sc['docs'], sc['history'], sc['perturb']]))
        if res['violations'] and not focus:
            rule = res['violations'][0]['rule']
            sc['focus'] = 'law' if rule.startswith('law') else rule
    except core.HarnessError as e:
        res['harness'] = str(e)
        return res
    res['sample'] = {'documents': [emit.emit(d) for d in sc['docs']], 'route': sc['route'], 'prior_history': [h['kind'] for h in sc['history']],
                     'perturbation': sc['perturb'], 'hashseeds': sc['hashseeds'], 'extra_document_for_determinism_variants': emit.emit(sc['dyn']) if sc.get('dyn') else None, 'reference': {'status': ref['status'], 'cfg': ref.get('cfg')}}
    return res


def shrink(sc):
    if sc['history']:
        for i in range(len(sc['history'])):
            c = copy.deepcopy(sc)
            del c['history'][i]
            yield c
    if sc['hashseeds']:
        c = copy.deepcopy(sc)
        c['hashseeds'] = []
        yield c
    if sc.get('dyn'):
        c = copy.deepcopy(sc)
        c['dyn'] = None
        yield c
    if sc['route'] != 'text':
        c = copy.deepcopy(sc)
        c['route'] = 'text'
        yield c
    n = len(sc['docs'])
    for i in range(n):
        if n > 1:
            c = copy.deepcopy(sc)
            del c['docs'][i]
            yield c
    for i, d in enumerate(sc['docs']):
        for cand in gen.shrink_tree(d):
            if cand['k'] != 'map':
                continue
            c = copy.deepcopy(sc)
            c['docs'][i] = _sanitise(copy.deepcopy(cand), top=True)   # stay inside the statement: no remove-this-key idiom
            yield c


def evidence_extra(stats):
    return {}


def reach_problems(stats, tier):
    pr = stats.get('probes', {})
    probs = []
    for need in ('law:idempotent', 'law:empty', 'law:permuted', 'law:!unsafe', 'law:!new', 'hashseed_builds', 'perturbation_points', 'prior_build_ok',
                 'gc:aggressive', 'gc:disabled'):
        if not pr.get(need):
            probs.append(f'probe {need} never fired')
    fl = stats.get('faults', {})
    for need in ('prior_build_failed:ParsingError', 'prior_build_failed:MergeError', 'prior_build_failed:EvalError'):
        if not fl.get(need):
            probs.append(f'fault {need} never fired')
    return probs
