"""C07 - unsafe content never reaches executed code, whatever is merged around it.

Source-level safety travels through ambient state (thread-local default, class default, the
safe= an include passes down while it reads files during build()).  Simulated dimensions:
1-2 client threads building at the same time with different safe flags under seeded schedules,
failing sources inside the safe/unsafe window followed by more sources on the same builder,
include / !rec chains on the simulated file system, class default True/False; merge histories of
safe and unsafe stages touching the same paths are the workload.

Oracle: a taint monitor, no model of merging.  Every scalar of a generated document is a unique
token whose taint is known from where it is written (S/U).  At every recorder event (call, name
resolution, import, eval probe) and in everything executed code produced (eval / f-string results,
partials) no U token may appear; a U dynamic node that nothing overwrites must make the build fail
with UnsafeError.
"""
import copy
import io
import re

from .. import core, sched, simfs, recorder, observe, emit
from ..emit import m, q, s, raw

ID = 'C07'
RULE = ('a case = (per-thread build programs: 1-4 stages with safe flags, !unsafe markers, include/!rec files, failing sources; '
        'families of keys written by several stages: call/bind nodes with argument, name, list and node overrides, placeholders, '
        'deletions, data consumed through xref chains, eval/f-string code reading config names, imports) x schedule; '
        'non-trivial iff at least one safe dynamic node executed and at least one unsafe token was present, or an UnsafeError was raised; '
        'distinct = distinct digest of (programs, schedule digest)')
ASSUMPTIONS = [
    'taint is assigned where a token is written (source safe flag, class default, !unsafe / safe metadata on or above the node, inclusion by unsafe content); the monitor flags only U tokens reaching executed code and missing UnsafeErrors - the library being more conservative is allowed',
    'evaluated code is restricted to the probe rec(token, names...) and plain name reads, so what it resolved is visible in the recorder log and in its result',
    'pre-emption points as in C20 (lines of awesomeyaml code, opcodes in the critical functions, simulated I/O, recorder calls)',
]
TIERS = {
    'quick': {'runs': 3000, 'wall_cap': 75, 'chunk': 8, 'min_budget': 50, 'min_each': 25},
    'thorough': {'runs': 30000, 'wall_cap': 900, 'chunk': 16, 'min_budget': 200, 'min_each': 60},
}
CWD = '/w'


# ---------------------------------------------------------------------------------------------
# generation

class _G:
    def __init__(self, r, ti):
        self.r = r
        self.ti = ti
        self.n = 0
        self.files = {}

    def tok(self, taint):
        self.n += 1
        return f'{taint}{self.n}t{self.ti}'

    def fname(self, stem):
        self.n += 1
        return f'/t{self.ti}/{stem}{self.n}.yaml'


def _sv(t):
    return emit.scalar_text(t)


def _call(g, taint, kind='call', args=None, unsafe_meta=False):
    f = g.tok(taint)
    tag = f'!{kind}:simrec.f_{f}'
    if unsafe_meta:
        tag += "{{'safe': False}}"
    elif g.r.random() < 0.08:
        tag += "{{'safe': True}}"     # an explicit "safe" mark changes nothing: it cannot make anything safer than its surroundings
    if args is None:
        args = {k: _sv(g.tok(taint)) for k in g.r.sample(['a', 'b', 'c'], g.r.randrange(0, 3))}
    return tag + ' {' + ', '.join(f'{k}: {v}' for k, v in args.items()) + '}'


def _gen_build(r, g, class_default):
    n_stage = r.randrange(1, 5)
    stages = []
    for si in range(n_stage):
        safe = r.choice([None, None, None, True, True, False, False])
        taint = 'U' if (safe is False or not class_default) else 'S'
        stages.append({'safe': safe, 'taint': taint, 'items': []})
    n_data = r.randrange(1, 4)
    data_keys = [f'd{i}' for i in range(n_data)]
    witness = None
    # DATA families (always defined in stage 0 so that references never dangle)
    list_keys = set()
    for dk in data_keys:
        for si, st in enumerate(stages):
            if si == 0 or r.random() < 0.35:
                t = st['taint']
                c = r.randrange(6)
                if c == 0:
                    v = f'[{_sv(g.tok(t))}, {_sv(g.tok(t))}]'
                    if si == 0:
                        list_keys.add(dk)
                    elif dk in list_keys and r.random() < 0.6:
                        # list operators move content of this stage into the list of an earlier one
                        v = r.choice(['!append ', '!extend ']) + (f'[{_sv(g.tok(t))}]' if r.random() < 0.7 else f'[!unsafe {_sv(g.tok("U"))}, {_sv(g.tok(t))}]')
                elif c == 1:
                    v = f'{{p: {_sv(g.tok(t))}}}'
                elif c == 2 and si > 0:
                    v = '!unsafe ' + _sv(g.tok('U'))
                elif c == 3 and si > 0:
                    v = r.choice(['!force ', '!weak ']) + _sv(g.tok(t))
                else:
                    v = _sv(g.tok(t))
                st['items'].append([dk, v])
    fams = [r.choice(['call', 'call', 'bind', 'xrefcall', 'eval', 'fstr', 'import', 'rec', 'boxinc', 'chain', 'evalprobe',
                      'evalattr', 'aynscfg', 'reclist', 'recxref', 'inclist', 'boxwhole', 'boxwhole', 'nestbox', 'nestbox', 'pathcall', 'prevmove', 'aliasval', 'latefn'])
            for _ in range(r.randrange(1, 5))]
    # a mapping-valued data entry whose members have their own taint (read member-wise by evaluated code)
    box_key = None
    if any(f in ('evalattr',) for f in fams):
        box_key = 'dbox'
        t0 = stages[0]['taint']
        q_taint = 'U' if r.random() < 0.5 else t0
        q_val = ('!unsafe ' if q_taint == 'U' and t0 != 'U' else '') + _sv(g.tok(q_taint))
        stages[0]['items'].append([box_key, '{p: ' + _sv(g.tok(t0)) + ', q: ' + q_val + '}'])
        if r.random() < 0.5:
            stages[0]['items'].append(['dbox_alias', '!xref dbox.p'])
    moved = set()
    for fi, fam in enumerate(fams):
        key = f'{fam[0]}{fi}'
        first = r.randrange(n_stage)
        for si in range(first, n_stage):
            st = stages[si]
            t = st['taint']
            base = (si == first)
            if not base and r.random() < 0.55:
                continue
            dk = r.choice(data_keys)
            if fam in ('call', 'bind'):
                if base:
                    c = r.randrange(12)
                    if c == 0 and si + 1 < n_stage:
                        v = '!required'
                    elif c == 1:
                        v = _call(g, 'U', fam, unsafe_meta=True)
                    else:
                        v = _call(g, t, fam)
                else:
                    c = r.randrange(10)
                    if c == 0:
                        v = '{' + ', '.join(f'{k}: {_sv(g.tok(t))}' for k in r.sample(['a', 'b', 'c'], r.randrange(1, 3))) + '}'
                    elif c == 1:
                        v = _sv('simrec.f_' + g.tok(t))
                    elif c == 2:
                        v = _call(g, t, fam)
                    elif c == 3:
                        v = f'[{_sv(g.tok(t))}]'
                    elif c == 4:
                        v = '!del'
                    elif c == 5:
                        v = '!unsafe {a: ' + _sv(g.tok('U')) + '}'
                    elif c == 6:
                        v = f'{{a: !xref {dk}}}'
                    elif c == 7:
                        v = '!merge {b: ' + _sv(g.tok(t)) + '}'
                    elif c == 9:
                        v = '{!unsafe ' + g.tok('U') + ': ' + _sv(g.tok(t)) + '}'     # the *name* of an argument is unsafe content
                    else:
                        v = _call(g, t, r.choice(['call', 'bind']))
            elif fam == 'xrefcall':
                v = _call(g, t, 'call', args={'a': f'!xref {dk}', 'b': _sv(g.tok(t))}) if base else '{b: ' + _sv(g.tok(t)) + '}'
            elif fam == 'chain':
                if base:
                    st['items'].append([key + 'l', f'!xref {dk}'])
                    v = _call(g, t, r.choice(['call', 'bind']), args={'a': f'!xref {key}l'})
                else:
                    v = f'{{a: !xref {dk}}}'
            elif fam == 'eval':
                v = '!eval ' + emit.scalar_text(dk) if base else _sv(g.tok(t))
            elif fam == 'evalprobe':
                own = g.tok(t)
                v = '!eval ' + emit.scalar_text(f"rec('{own}', {dk})")
            elif fam == 'evalattr':
                own = g.tok(t)
                member = r.choice(['dbox.q', "dbox['q']", 'dbox.p'])
                first = 'dbox_alias, ' if any(k == 'dbox_alias' for k, _ in stages[0]['items']) and r.random() < 0.7 else ''
                v = '!eval ' + emit.scalar_text(f"rec('{own}', {first}{member})")
            elif fam == 'nestbox':
                if base:
                    c = r.randrange(4)
                    inner = [_call(g, t, r.choice(['call', 'bind'])), _call(g, t, 'call', args={}), '!force {}', '!force []'][c]
                    v = r.choice(['', '', '!force ', '!weak ']) + '{c: ' + inner + ', d: ' + _sv(g.tok(t)) + '}'     # the box itself may carry a priority
                else:
                    c = r.randrange(6)
                    if c == 5:
                        v = '!unsafe {c: !force ' + _sv('simrec.f_' + g.tok('U')) + '}'      # ... and so may the replacing name
                    elif c == 0:
                        v = '!unsafe {c: ' + _sv('simrec.f_' + g.tok('U')) + '}'             # name replaced by an implicitly unsafe string
                    elif c == 1:
                        v = '!unsafe {c: ' + _call(g, 'U', r.choice(['call', 'bind']), args={}) + '}'   # argument-less dynamic node below !unsafe
                    elif c == 2:
                        v = '!unsafe {c: {a: ' + _sv(g.tok('U')) + '}}'
                    elif c == 3:
                        v = '{c: {a: ' + _sv(g.tok(t)) + '}}'
                    else:
                        v = '{c: !force {}}'
            elif fam == 'boxwhole':
                # a container with members of mixed taint (the unsafe one not last), consumed as a whole
                members = [('q', '!unsafe ' + _sv(g.tok('U'))), ('p', _sv(g.tok(t))), ('r', _sv(g.tok(t)))]
                if r.random() < 0.3:
                    r.shuffle(members)
                anchor = f'&anc{key} ' if r.random() < 0.4 else ''
                if r.random() < 0.5:
                    st['items'].append([key + 'b', anchor + '{' + ', '.join(f'{k}: {v}' for k, v in members) + '}'])
                else:
                    st['items'].append([key + 'b', anchor + '[' + ', '.join(v for _, v in members) + ']'])
                if anchor:
                    # the same node object reachable under a second path (YAML alias); the consumer uses that path
                    st['items'].append([key + 'c', f'*anc{key}'])
                    key_b = key + 'c'
                else:
                    key_b = key + 'b'
                c = r.randrange(3)
                if c == 0:
                    v = _call(g, t, r.choice(['call', 'bind']), args={'a': f'!xref {key_b}'})
                elif c == 1:
                    v = '!eval ' + emit.scalar_text(f"rec('{g.tok(t)}', {key_b})")
                else:
                    st['items'].append([key + 'a', f'!xref {key_b}'])
                    v = _call(g, t, 'call', args={'a': f'!xref {key}a'})
            elif fam == 'aynscfg':
                own = g.tok(t)
                v = '!eval ' + emit.scalar_text(f"rec('{own}', ayns.cfg.{dk})")
            elif fam == 'reclist':
                f1, f2 = g.fname('rec'), g.fname('rec')
                g.files[f1] = '{c: ' + _call(g, t, 'call') + '}\n'
                g.files[f2] = '{c2: ' + _call(g, 'U', 'call') + ', v: ' + _sv(g.tok('U')) + '}\n'
                v = f'!rec [{f1}, !unsafe {f2}]'
            elif fam == 'recxref':
                fn = g.fname('rec')
                name_taint = 'U' if r.random() < 0.6 else t
                g.files[fn] = '{c: ' + _call(g, name_taint, 'call') + '}\n'
                st['items'].append([key + 'n', ('!unsafe ' if name_taint == 'U' and t != 'U' else '') + fn])
                v = f'!rec [!xref {key}n]'
            elif fam == 'inclist':
                f1, f2 = g.fname('inc'), g.fname('inc')
                g.files[f1] = '{c: ' + _call(g, t, 'call') + '}\n'
                n2 = f2
                if r.random() < 0.4:
                    # the individually marked name is written with '~' (found below HOME)
                    f2 = '/home/u' + f2.replace('/', '_t_', 1).replace('/', '_')
                    f2 = '/home/u/' + f2[len('/home/u'):].lstrip('_')
                    n2 = '~/' + f2[len('/home/u/'):]
                g.files[f2] = '{c2: ' + _call(g, 'U', 'call') + '}\n'
                v = f'!include [{f1}, !unsafe {n2}]'
                if r.random() < 0.25:
                    # the name is written (with a marker of its own) below an !unsafe mapping and used here through its alias
                    st['items'].append([key + 'n', '!unsafe {p: &anc' + key + ' ' + r.choice(['!weak ', '!force ', '']) + n2 + '}'])
                    v = f'!include [{f1}, *anc{key}]'
            elif fam == 'fstr':
                c = r.randrange(4)
                if c == 0:
                    own = g.tok(t)
                    v = "f'{" + dk + "}_" + own + "'"                       # implicit form (plain scalar)
                elif c == 1:
                    own = g.tok('U')
                    v = "!unsafe f'{" + dk + "}_" + own + "'"               # marked: must never be evaluated
                else:
                    own = g.tok(t)
                    v = '!fstr ' + emit.scalar_text("f'{" + dk + "}_" + own + "'")
            elif fam == 'import':
                v = '!import simrec.v_' + g.tok(t)
            elif fam == 'rec':
                fn = g.fname('rec')
                g.files[fn] = '{c: ' + _call(g, t, 'call') + ', v: ' + _sv(g.tok(t)) + '}\n'
                st.setdefault('filename_needed', True)
                v = '!rec ' + fn
            elif fam == 'boxinc':
                fn = g.fname('box')
                g.files[fn] = '{c: ' + _call(g, 'U', 'call') + '}\n'
                v = '!unsafe {inc: !include ' + fn + '}'
            elif fam == 'aliasval':
                # a plain value written below !unsafe and named by an anchor; a safe place of the same document uses the alias
                u = g.tok('U')
                val = r.choice([_sv(u), '[' + _sv(u) + ']', '{k: ' + _sv(u) + '}'])
                st['items'].append([key + 'v', '!unsafe {x: &anc' + key + ' ' + val + ', note: 1}'])
                c = r.randrange(3)
                if c == 0:
                    v = _call(g, t, r.choice(['call', 'bind']), args={'a': f'*anc{key}'})
                elif c == 1:
                    st['items'].append([key + 'a', f'*anc{key}'])
                    v = _call(g, t, 'call', args={'a': f'!xref {key}a'})
                else:
                    st['items'].append([key + 'a', f'*anc{key}'])
                    v = '!eval ' + emit.scalar_text(f"rec('{g.tok(t)}', {key}a)")
            elif fam == 'latefn':
                # evaluated code that creates a function; the client calls it after the build, and only then does it read the entry
                own = g.tok(t)
                v = '!eval ' + emit.scalar_text(r.choice([f"lambda: rec('{own}', {dk})", f"lambda: rec('{own}', ayns.cfg.{dk})"]))
            elif fam == 'pathcall':
                # a !path assembled from components of mixed taint, consumed by a call or by evaluated code
                comps = [_sv(g.tok(t)), ('!unsafe ' + _sv(g.tok('U'))) if r.random() < 0.6 else _sv(g.tok(t)), _sv(g.tok(t))]
                r.shuffle(comps)
                pnode = '!path' + r.choice(['', ':cwd', ':abs']) + ' [' + ', '.join(comps[:r.randrange(2, 4)]) + ']'
                c = r.randrange(3)
                if c == 0:
                    v = _call(g, t, r.choice(['call', 'bind']), args={'a': pnode})
                elif c == 1:
                    st['items'].append([key + 'p', pnode])
                    v = _call(g, t, 'call', args={'a': f'!xref {key}p'})
                else:
                    st['items'].append([key + 'p', pnode])
                    v = '!eval ' + emit.scalar_text(f"rec('{g.tok(t)}', str({key}p))")
            elif fam == 'prevmove':
                # content below an !unsafe mapping, moved to a safe place by a later stage (!prev takes the node itself)
                if base:
                    inner = r.choice(['!eval ' + emit.scalar_text(f"rec('{g.tok('U')}', 1)"), _call(g, 'U', 'call', args={}), '!import simrec.v_' + g.tok('U'), _sv(g.tok('U'))])
                    st['items'].append([key + 'v', '!unsafe {x: ' + inner + ', note: 1}'])
                    continue
                if key in moved:
                    continue
                moved.add(key)
                st['items'].append([key + 'u', _call(g, t, 'call', args={'a': f'!xref {key}'})])
                v = r.choice([f'!prev {key}v.x', '{deep: {er: !prev ' + key + 'v.x}}'])
                if v.startswith('{'):
                    st['items'][-1][1] = _call(g, t, 'call', args={'a': f'!xref {key}.deep.er'})
            st['items'].append([key, v])
    # a witness: an unsafe dynamic node under a key nothing else writes
    if r.random() < 0.22:
        si = r.randrange(n_stage)
        st = stages[si]
        how = r.choice(['source', 'meta', 'below', 'included', 'twice', 'twice', 'marked_below', 'marked_merged', 'key_below', 'marked_container', 'merged_plain', 'forced_box_renamed', 'forced_box_renamed'])
        if how == 'source' and st['taint'] == 'U':
            st['items'].append(['w0', _call(g, 'U', r.choice(['call', 'bind']))])
            witness = how
        elif how == 'meta':
            st['items'].append(['w0', _call(g, 'U', r.choice(['call', 'bind']), unsafe_meta=True)])
            witness = how
        elif how == 'below':
            inner = r.choice([_call(g, 'U', 'call'), '!import simrec.v_' + g.tok('U'), '!eval ' + emit.scalar_text("'" + g.tok('U') + "'")])
            st['items'].append(['w0', '!unsafe {k: [' + inner + ']}'])
            witness = how
        elif how == 'key_below':
            # a dynamic node used as a mapping KEY: keys are not children of the mapping, they are below it all the same
            u = g.tok('U')
            keynode = r.choice([f'!eval "rec(\'{u}\', 1)"', f'!import simrec.v_{u}', f"!fstr \"f'{{rec(\\\"{u}\\\", 2)}}'\""])
            st['items'].append(['w0', r.choice(['!unsafe {' + keynode + ': 1}', '!unsafe [{' + keynode + ': 1}]', '!unsafe {m: {' + keynode + ': [1]}}'])])
            witness = how
        elif how == 'marked_below':
            inner = r.choice([f"!call:simrec.f_{g.tok('U')}{{{{'safe': True}}}} {{}}", f"!bind:simrec.f_{g.tok('U')}{{{{'safe': True}}}} {{}}",
                              f"!import{{{{'safe': True}}}} simrec.v_{g.tok('U')}", "!eval{{'safe': True}} " + emit.scalar_text("'" + g.tok('U') + "'")])
            st['items'].append(['w0', r.choice(['!unsafe {k: [' + inner + ']}', '!unsafe [{k: ' + inner + '}]', '!unsafe {k: ' + inner + '}'])])
            witness = how
        elif how == 'marked_container':
            # an explicitly "safe" container below !unsafe: neither it nor what it holds becomes safe
            inner = r.choice([_call(g, 'U', 'call'), '!import simrec.v_' + g.tok('U')])
            st['items'].append(['w0', r.choice(["!unsafe {k: !metadata{{'safe': True}} {c: " + inner + "}}", "!unsafe [!metadata{{'safe': True}} [" + inner + "]]",
                                                "!unsafe {k: !metadata{{'safe': True}} {m: {c: [" + inner + "]}}}"])])
            witness = how
        elif how == 'forced_box_renamed' and n_stage >= 2 and si + 1 < n_stage:
            # a call inside a mapping that has priority; a later stage marks the mapping !unsafe and replaces the call's name (with priority)
            sj = r.randrange(si + 1, n_stage)
            st['items'].append(['w0', '!force {c: ' + _call(g, st['taint'], r.choice(['call', 'bind']), args={}) + '}'])
            stages[sj]['items'].append(['w0', '!unsafe {c: !force ' + _sv('simrec.f_' + g.tok('U')) + '}'])
            witness = how
        elif how == 'merged_plain' and n_stage >= 2:
            # an unmarked dynamic node in a mapping that another stage marks !unsafe
            sj = r.choice([j for j in range(n_stage) if j != si])
            st['items'].append(['w0', '{c: ' + r.choice([f"!call:simrec.f_{g.tok('U')} {{}}", '!import simrec.v_' + g.tok('U'), '{d: [' + f"!bind:simrec.f_{g.tok('U')} {{}}" + ']}']) + '}'])
            stages[sj]['items'].append(['w0', '!unsafe {z: 1}'])
            witness = how
        elif how == 'marked_merged' and n_stage >= 2:
            # the node carries an explicit "safe" mark; the mapping it lives in is marked !unsafe by another stage
            sj = r.choice([j for j in range(n_stage) if j != si])
            st['items'].append(['w0', "{c: " + f"!call:simrec.f_{g.tok('U')}{{{{'safe': True}}}} {{}}" + "}"])
            stages[sj]['items'].append(['w0', '!unsafe {z: 1}'])
            witness = how
        elif how == 'twice' and st['taint'] == 'S':
            fn = g.fname('twice')
            g.files[fn] = '{k: ' + _call(g, 'S', 'call') + '}\n'       # legitimately executed through the safe include ...
            st['items'].append(['w0s', '!include ' + fn])
            st['items'].append(['w0', r.choice(['!include [!unsafe ' + fn + ']', '!unsafe {i: !include ' + fn + '}'])])   # ... never through this one
            witness = how
        elif how == 'included' and st['taint'] == 'U':
            fn = g.fname('winc')
            g.files[fn] = '{k: ' + _call(g, 'U', 'call') + '}\n'
            st['items'].append(['w0', '!include ' + fn])
            witness = how
    if witness in ('below', 'marked_below', 'marked_container', 'key_below') and r.random() < 0.4:
        # a data-only sibling carrying an explicit unsafe mark in its annotation, written before the witness
        for st in stages:
            idx = next((i for i, it in enumerate(st['items']) if it[0] == 'w0'), None)
            if idx is not None:
                st['items'].insert(idx, ['w_pre', "!metadata{{'safe': False}} {z: 1}"])
    # materialise sources
    sources = []
    for si, st in enumerate(stages):
        if r.random() < 0.6 and not any('&anc' in str(v) for _, v in st['items']):
            r.shuffle(st['items'])      # evaluation order follows key order: consumers before / after what they read
        # block style at the top level (implicit f-strings cannot be written inside a flow mapping)
        text = ''.join(f'{k}: {v}\n' for k, v in st['items']) if st['items'] else '{}\n'
        kind = r.choice(['text', 'text', 'file', 'include', 'stream'])
        src = {'safe': st['safe'], 'taint': st['taint']}
        if kind == 'file':
            fn = g.fname('src')
            g.files[fn] = text
            src['path'] = fn
        elif kind == 'include':
            fn = g.fname('incl')
            g.files[fn] = text
            src['text'] = f'!include [{fn}]\n'
            src['filename'] = g.fname('master')
        elif kind == 'stream':
            src['stream'] = text
            src['filename'] = g.fname('virt')
        else:
            src['text'] = text
            src['filename'] = g.fname('virt') if r.random() < 0.5 else None
        sources.append(src)
        if r.random() < 0.06:
            # a failing source inside a window of the opposite safety, then the thread goes on
            bad_safe = r.choice([True, False])
            sources.append({'safe': bad_safe, 'taint': 'X', 'text': '{zz: ' + _sv(g.tok('U' if bad_safe is False or not class_default else 'S')) + '}\n---\n{q: [1, 2\n',
                            'filename': None, 'fails': True})
    api = 'each'
    if not any(src.get('fails') for src in sources) and r.random() < 0.2:
        # the same sources handed over in one call, safety given per source or (when they all agree) once for all
        api = 'multi_scalar' if len({src['safe'] for src in sources}) == 1 and r.random() < 0.5 else r.choice(['multi_list', 'multi_tuple'])
    # how the merged tree is evaluated: Config(tree), a pickled / deep-copied tree, or an evaluation context used directly
    route = r.choice(['config'] * 5 + ['pickle', 'deepcopy', 'evalctx', 'evalctx', 'dump_reparse', 'dump_reparse'])
    if route == 'dump_reparse' and (not class_default or any(src['taint'] != 'S' for src in sources)):
        route = 'config'      # a dump cannot carry the safety of the *sources*; marks inside the documents it must keep
    return {'sources': sources, 'witness': witness, 'api': api, 'eval_route': route}


def _sched_spec(r):
    from .c20 import _sched_spec as s20
    return s20(r)


def generate(r, tier, index):
    k = 1 if r.random() < 0.45 else 2
    class_default = r.random() >= 0.1
    threads = []
    for ti in range(k):
        g = _G(r, ti)
        builds = [_gen_build(r, g, class_default) for _ in range(r.randrange(1, 3))]
        threads.append({'ti': ti, 'builds': builds, 'files': g.files})
    return {'threads': threads, 'class_default': class_default,
            'sched': _sched_spec(r) if k > 1 else {'policy': 'serial'}}


# ---------------------------------------------------------------------------------------------
# execution

def _tokens_in(v, out):
    import functools
    import re
    if isinstance(v, str):
        out.extend(re.findall(r'[SU]\d+t\d+', v))
    elif isinstance(v, dict):
        for k, x in v.items():
            _tokens_in(k, out)
            _tokens_in(x, out)
    elif isinstance(v, (list, tuple)):
        for x in v:
            _tokens_in(x, out)
    elif isinstance(v, functools.partial):
        _tokens_in(getattr(v.func, '__name__', ''), out)
        _tokens_in(list(v.args), out)
        _tokens_in(dict(v.keywords), out)
    return out


def _executed_outputs(cfg, out, source=None):
    """Tokens that executed code put into the final config: partials anywhere; results of eval / f-string / import
    nodes, identified by the kind of the node in the merged source tree the config keeps."""
    import functools
    from awesomeyaml.nodes.eval import EvalNode
    from awesomeyaml.nodes.composed import ComposedNode
    import importlib
    ImportNode = importlib.import_module('awesomeyaml.nodes.import').ImportNode

    def walk(v, node, depth=0):
        if depth > 30:
            return
        if isinstance(v, functools.partial):
            _tokens_in(v, out)
            return
        if isinstance(node, (EvalNode, ImportNode)):
            _tokens_in(_plainish(v), out)
            return
        if isinstance(v, dict):
            for k, x in v.items():
                child = node.ayns.get_child(k, None) if isinstance(node, ComposedNode) else None
                walk(x, child, depth + 1)
        elif isinstance(v, (list, tuple)):
            for i, x in enumerate(v):
                child = node.ayns.get_child(i, None) if isinstance(node, ComposedNode) else None
                walk(x, child, depth + 1)
    walk(cfg, source if source is not None else getattr(cfg, '_source', None))
    return out


def _unsafety_is_marked(node, parent_safe):
    """True iff every unsafe node of the tree carries an explicit mark itself or sits below an unsafe node."""
    from awesomeyaml.nodes.composed import ComposedNode
    safe = bool(node.ayns.safe)
    if not safe and parent_safe and getattr(node, '_safe', None) is not False:
        return False
    if isinstance(node, ComposedNode):
        return all(_unsafety_is_marked(c, safe) for c in node._children.values())
    return True


def _unsafe_leaves(root):
    """Values of the unsafe scalar nodes (a dump may spell a node differently - !path becomes a mapping - but keeps its leaves)."""
    from awesomeyaml.nodes.composed import ComposedNode
    return sorted(repr(str(n)) for _, n in root.ayns.nodes_with_paths() if not isinstance(n, ComposedNode) and not n.ayns.safe)


def _client(th, out):
    import pickle
    import types
    from awesomeyaml import Builder, Config, EvalContext, errors
    from awesomeyaml import yaml as ayaml
    tname = None

    def run():
        import threading
        tname = threading.current_thread().name
        for bi, bd in enumerate(th['builds']):
            sched.begin_op(f't{th["ti"]}.build{bi}')
            rec = {'build': bi, 'src_errors': []}
            start = len(recorder.LOG)
            try:
                b = Builder()
                if bd.get('api', 'each') != 'each':
                    objs = [src['path'] if 'path' in src else io.StringIO(src['stream']) if 'stream' in src else src['text'] for src in bd['sources']]
                    raws = [False if 'path' in src else None if 'stream' in src else True for src in bd['sources']]
                    names = [None if 'path' in src else src.get('filename') for src in bd['sources']]
                    safes = [src['safe'] for src in bd['sources']]
                    if bd['api'] == 'multi_tuple':      # any sequence will do for "one value per source"
                        raws, names, safes = tuple(raws), tuple(names), tuple(safes)
                    b.add_multiple_sources(*objs, raw_yaml=raws, filename=names, safe=(safes[0] if bd['api'] == 'multi_scalar' else safes))
                for si, src in enumerate(bd['sources'] if bd.get('api', 'each') == 'each' else []):
                    kw = {}
                    if src['safe'] is not None:
                        kw['safe'] = src['safe']
                    try:
                        if 'path' in src:
                            b.add_source(src['path'], raw_yaml=False, **kw)
                        elif 'stream' in src:
                            b.add_source(io.StringIO(src['stream']), filename=src.get('filename'), **kw)
                        else:
                            b.add_source(src['text'], raw_yaml=True, filename=src.get('filename'), **kw)
                    except Exception as e:
                        rec['src_errors'].append([si, type(e).__name__])
                        if not src.get('fails'):
                            raise
                root = b.build()
                route = bd.get('eval_route', 'config')
                if route == 'pickle':
                    root = pickle.loads(pickle.dumps(root))
                elif route == 'deepcopy':
                    root = copy.deepcopy(root)
                elif route == 'dump_reparse':
                    # the merged tree written out as YAML text and read again (all sources were safe ones): marks must survive
                    # (content whose unsafety is that of its source, of the include naming its file, or of a mapping it was moved out
                    # of carries no mark of its own and none on its path: nothing a dump could write down)
                    if _unsafety_is_marked(root, True):
                        before = _unsafe_leaves(root)
                        b2 = Builder()
                        b2.add_source(ayaml.dump(root), raw_yaml=True)
                        root = b2.build()
                        rec['dumped'] = True
                        after = _unsafe_leaves(root)
                        rec['marks_lost'] = sorted(x for x in set(before) if before.count(x) > after.count(x))
                if route == 'evalctx':
                    cfg = EvalContext().evaluate(root)
                else:
                    cfg = Config(root)
                rec['status'] = 'ok'
                rec['out_tokens'] = _executed_outputs(cfg, [], root if route == 'evalctx' else None)
                for v_ in list(cfg.values()):
                    if isinstance(v_, types.FunctionType):
                        # functions made by evaluated code are called now, after the build (their events are part of this build's log)
                        try:
                            v_()
                            rec['late_calls'] = rec.get('late_calls', 0) + 1
                        except Exception as e:
                            rec.setdefault('late_errors', []).append(type(e).__name__)
                rec['all_tokens'] = sorted(set(_tokens_in(observe.plain(dict(cfg)) if False else _plainish(cfg), [])))
            except Exception as e:
                rec['status'] = 'error'
                rec['exc'] = {'type': type(e).__name__, 'chain': observe.cause_types(e), 'msg': observe.norm_text(e)[:600],
                              'unsafe': _has_unsafe(e)}
            rec['events'] = [ev[1:] for ev in recorder.LOG[start:] if ev[0] == tname]
            sched.end_op()
            out.append(rec)
    return run


def _plainish(v):
    import functools
    if isinstance(v, dict):
        return {str(k): _plainish(x) for k, x in v.items()}
    if isinstance(v, (list, tuple)):
        return [_plainish(x) for x in v]
    if isinstance(v, functools.partial):
        return ['partial', getattr(v.func, '__name__', ''), _plainish(list(v.args)), _plainish(dict(v.keywords))]
    return v if isinstance(v, (str, int, float, bool, type(None))) else repr(type(v))


def _has_unsafe(e):
    from awesomeyaml import errors
    seen = set()
    stack = [e]
    while stack:
        x = stack.pop()
        if x is None or id(x) in seen:
            continue
        seen.add(id(x))
        if isinstance(x, errors.UnsafeError):
            return True
        stack.append(x.__cause__)
        stack.append(x.__context__)
    return False


def _run(sc, which, spec):
    from awesomeyaml import Builder
    files = {}
    for th in sc['threads']:
        files.update(th['files'])
    fs = simfs.SimFS(files, cwd=CWD).install()
    mod = recorder.install()
    recorder.LOG_RESOLVE = True
    from awesomeyaml import EvalContext
    EvalContext.set_default_eval_symbols({'rec': recorder.rec})
    Builder._default_safe_flag = bool(sc['class_default'])
    ths = [sc['threads'][i] for i in which]
    outs = [[] for _ in ths]
    sch = sched.Scheduler(spec)
    sch.run([_client(t, o) for t, o in zip(ths, outs)])
    return {'outs': outs, 'switches': len(sch.switches), 'lines': sum(t.lines for t in sch.threads), 'overlaps': sch.overlaps,
            'idig': sch.interleaving_digest(), 'explicit': sch.explicit_spec()}


def execute(sc):
    res = core.ok_result()
    st = res['stats']
    k = len(sc['threads'])
    spec = sc['sched']
    c = core.fork_call(_run, (sc, list(range(k)), spec), timeout=60)
    if c['status'] != 'ok':
        res['harness'] = f'{c["status"]}: {c.get("error", c.get("signal", ""))}'
        return res
    v = c['value']
    st['runs'] = 1
    st['lines'] = v['lines']
    st['switches'] = v['switches']
    st['overlaps'] = v['overlaps']
    oc = st.setdefault('outcomes', {})
    pr = st.setdefault('probes', {})
    fl = st.setdefault('faults', {})
    nontrivial = False

    def count(d, key, n=1):
        d[key] = d.get(key, 0) + n

    for ti, (th, recs) in enumerate(zip(sc['threads'], v['outs'])):
        mine = f't{th["ti"]}'
        for bd, rec in zip(th['builds'], recs):
            count(oc, 'build:' + rec['status'] + (':unsafe' if rec.get('exc', {}).get('unsafe') else ''))
            for _, et in rec['src_errors']:
                count(fl, 'failing_source:' + et)
            s_exec = 0
            u_seen = any(src['taint'] == 'U' for src in bd['sources']) or bd['witness']
            for ev in rec['events']:
                kind, token, args = ev[0], ev[1], ev[2]
                count(pr, 'event:' + kind)
                toks = _tokens_in([token] + list(args), [])
                bad = [t for t in toks if t.startswith('U')]
                foreign = [t for t in toks if not t.endswith(mine)]
                if not bad and kind in ('call', 'eval', 'import'):
                    s_exec += 1
                if bad:
                    where = 'as the target name' if token in bad or ('f_' + token) in bad else 'among the arguments / resolved names'
                    res['violations'].append(core.violation(
                        'taint.executed', f'thread {ti} build {rec["build"]}: {kind} event for {token!r} involves unsafe token(s) {bad!r} {where}; '
                        f'received {args!r}', kind=kind, where='name' if token in bad else 'args'))
                    break
                if foreign:
                    res['violations'].append(core.violation('taint.foreign', f'thread {ti} build {rec["build"]}: {kind} event {token!r} carries tokens of another thread: {foreign!r}', kind=kind))
                    break
            if rec.get('dumped'):
                count(pr, 'route:dump_reparse')
            if rec.get('marks_lost') and not res['violations']:
                res['violations'].append(core.violation('unsafe.mark_lost', f'thread {ti} build {rec["build"]}: written out as YAML and read again, the nodes at {rec["marks_lost"][:5]} are no longer unsafe '
                                                        '(all sources were safe ones: their unsafety was marked in the documents)', kind='dump'))
            if res['violations']:
                break
            if rec['status'] == 'ok':
                bad = [t for t in rec['out_tokens'] if t.startswith('U')]
                if bad:
                    res['violations'].append(core.violation('taint.result', f'thread {ti} build {rec["build"]}: executed code (eval / f-string / import / bind) produced values carrying unsafe token(s) {sorted(set(bad))!r}', kind='result'))
                    break
                if bd['witness']:
                    res['violations'].append(core.violation('unsafe.not_reported', f'thread {ti} build {rec["build"]}: the config contains an unsafe dynamic node (witness: {bd["witness"]}) that nothing overwrites, but the build returned normally', witness=bd['witness']))
                    break
            else:
                if rec['exc']['unsafe']:
                    count(pr, 'unsafe_error_raised')
                    nontrivial = True
                elif bd['witness'] and not rec['exc']['unsafe']:
                    count(pr, 'witness_build_failed_otherwise:' + rec['exc']['type'])
            if s_exec and u_seen:
                nontrivial = True
                count(pr, 'safe_executed_next_to_unsafe')
            if bd['witness']:
                count(pr, 'witness:' + bd['witness'])
        if res['violations']:
            break
    if nontrivial:
        res['keys'].append(core.digest([sc['threads'], v['idig']]))
    if res['violations']:
        sc['explicit_sched'] = v['explicit']
    b0 = sc['threads'][0]['builds'][0]
    res['sample'] = {'threads': k, 'class_default_safe': sc['class_default'], 'thread0_build0_sources': b0['sources'], 'witness': b0['witness'],
                     'thread0_files': dict(list(sc['threads'][0]['files'].items())[:3]), 'schedule': spec,
                     'thread0_build0_outcome': {kk: vv for kk, vv in v['outs'][0][0].items() if kk in ('status', 'exc', 'events', 'src_errors')} if v['outs'][0] else None}
    return res


def _still_meaningful(c):
    """A shrunk scenario must keep what gives its tokens their meaning: the call of a 'marked_merged' witness carries a U
    token only because another stage marks its mapping !unsafe."""
    for th in c['threads']:
        for bd in th['builds']:
            if bd.get('witness') == 'forced_box_renamed':
                texts = [src.get('text', '') + src.get('stream', '') + th['files'].get(src.get('path'), '') for src in bd['sources']]
                for _ in range(3):
                    texts += [t for fn, t in th['files'].items() if t not in texts and any(fn in x for x in texts)]
                if not (any('w0: !force {c:' in t for t in texts) and any('w0: !unsafe {c: !force' in t for t in texts)):
                    return False
            if bd.get('witness') in ('marked_merged', 'merged_plain'):
                texts = [src.get('text', '') + src.get('stream', '') + th['files'].get(src.get('path'), '') for src in bd['sources']]
                for _ in range(3):      # files the sources include (by name), a few levels deep
                    texts += [t for fn, t in th['files'].items() if t not in texts and any(fn in x for x in texts)]
                if any('w0: {c:' in t for t in texts) and not any('w0: !unsafe' in t for t in texts):
                    return False
    return True


def shrink(sc):
    for c in _shrink(sc):
        if _still_meaningful(c):
            yield c


def _shrink(sc):
    if len(sc['threads']) > 1:
        for i in range(len(sc['threads'])):
            c = copy.deepcopy(sc)
            del c['threads'][i]
            if len(c['threads']) == 1:
                c['sched'] = {'policy': 'serial'}
            yield c
    for ti, th in enumerate(sc['threads']):
        for bi in range(len(th['builds'])):
            if len(th['builds']) > 1:
                c = copy.deepcopy(sc)
                del c['threads'][ti]['builds'][bi]
                yield c
            for si in range(len(th['builds'][bi]['sources'])):
                if len(th['builds'][bi]['sources']) > 1:
                    c = copy.deepcopy(sc)
                    del c['threads'][ti]['builds'][bi]['sources'][si]
                    yield c
    for ti, th in enumerate(sc['threads']):
        for bi, bd in enumerate(th['builds']):
            if bd.get('api', 'each') != 'each':
                c = copy.deepcopy(sc)
                c['threads'][ti]['builds'][bi]['api'] = 'each'
                yield c
    # drop single keys from flow-mapping texts
    for ti, th in enumerate(sc['threads']):
        for bi, bd in enumerate(th['builds']):
            for si, src in enumerate(bd['sources']):
                for field, holder in (('text', src), ('stream', src)):
                    txt = holder.get(field)
                    if txt and '\n---' not in txt:
                        for cand in _drop_items(txt):
                            c = copy.deepcopy(sc)
                            c['threads'][ti]['builds'][bi]['sources'][si][field] = cand
                            yield c
        for fn, txt in th['files'].items():
            if True:
                for cand in _drop_items(txt):
                    c = copy.deepcopy(sc)
                    c['threads'][ti]['files'][fn] = cand
                    yield c
    if sc['sched'].get('policy') not in ('serial', 'explicit') and sc.get('explicit_sched'):
        c = copy.deepcopy(sc)
        c['sched'] = c.pop('explicit_sched')
        yield c
    if sc['sched'].get('policy') == 'explicit':
        sw = sc['sched']['switches']
        for i in range(1, len(sw)):
            c = copy.deepcopy(sc)
            del c['sched']['switches'][i]
            yield c


def _split_top(body):
    parts, depth, cur, inq = [], 0, '', None
    for ch in body:
        if inq:
            cur += ch
            if ch == inq:
                inq = None
            continue
        if ch in '"\'':
            inq = ch
        elif ch in '{[':
            depth += 1
        elif ch in '}]':
            depth -= 1
        if ch == ',' and depth == 0:
            parts.append(cur)
            cur = ''
        else:
            cur += ch
    if cur.strip():
        parts.append(cur)
    return parts


def _drop_items(txt):
    body = txt.strip()
    if not (body.startswith('{') and body.endswith('}')):
        lines = txt.splitlines()
        if len(lines) >= 2 and all(re.match(r'^[A-Za-z0-9_]+: ', ln) for ln in lines):
            for i in range(len(lines)):
                yield '\n'.join(lines[:i] + lines[i + 1:]) + '\n'
        return
    parts = _split_top(body[1:-1])
    if len(parts) < 2:
        return
    for i in range(len(parts)):
        yield '{' + ','.join(parts[:i] + parts[i + 1:]).strip() + '}\n'


def evidence_extra(stats):
    return {}


def reach_problems(stats, tier):
    pr = stats.get('probes', {})
    probs = []
    for need in ('event:call', 'event:eval', 'event:import', 'event:resolve', 'unsafe_error_raised', 'safe_executed_next_to_unsafe',
                 'witness:source', 'witness:meta', 'witness:below', 'witness:included', 'witness:twice'):
        if not pr.get(need):
            probs.append(f'probe {need} never fired')
    return probs
