import importlib


def load(name):
    return importlib.import_module('aysim.props.' + name.lower())
