"""C12 - !eval and f-strings compute what Python computes, independent of history.

Simulated dimensions: (1) process history - a run is a sequence of 2-4 builds in one process that
reuse node paths and code text with different config values, symbols, evaluation contexts and file
names, some failing inside user code; (2) two such sequences running at once in two threads under
the seeded scheduler (they share sys.modules); (3) interpreter crash - every run is a forked child,
death by signal is an observation.

Oracle: per build, a reference namespace (a plain dict: evaluated config entries, then symbols)
in which the same program is run by the interpreter's own exec/eval; values must be equal (type
and ==), a user exception must surface as EvalError carrying the original cause, the child must
not die.  The reference is per build, so any dependence on earlier builds or on the other thread
is a mismatch.
"""
import copy
import json
import contextlib

from .. import core, sched, simfs, recorder, observe, emit
from ..progs import ProgGen

ID = 'C12'
RULE = ('a case = a history of 1-4 builds (optionally two histories in two threads under a seeded schedule) each with its own config '
        'values, symbols, evaluation context and file name (or none), holding 1-3 !eval / f-string nodes whose programs come from a seeded '
        'grammar (expressions, assignments, def/lambda/closures/global, comprehensions, if/for/while with break/continue, try/except/finally, '
        'with, imports, >256 names, deliberate errors); later builds reuse node paths and code text of earlier ones; non-trivial iff the '
        'history has >= 2 builds sharing a node path and code text, or threads overlapped, or a program has >= 2 free names; distinct = '
        'distinct digest of (builds, schedule digest)')
ASSUMPTIONS = [
    'only the CPython in /venv (3.12.1) is exercised: "on the CPython version in use" is what the statement asks',
    'generated programs have no side effects on the config, contain no ";" and no class bodies reading config names; lazy (library) and eager (reference) evaluation of names therefore agree',
    'the reference is the interpreter\'s own exec/eval in a plain dict namespace, run in a sibling forked process',
]
TIERS = {
    'quick': {'runs': 3500, 'wall_cap': 75, 'chunk': 12, 'min_budget': 50, 'min_each': 25},
    'thorough': {'runs': 60000, 'wall_cap': 900, 'chunk': 24, 'min_budget': 200, 'min_each': 60},
}


class B(dict):
    """Attribute-accessible dict of the reference namespace (what a mapping entry of the config looks like to code)."""
    def __getattr__(self, k):
        try:
            return self[k]
        except KeyError:
            raise AttributeError(k)


def _mk_symbols(spec):
    out = {}
    for name, sp in spec.items():
        k = sp['k']
        if k == 'val':
            out[name] = sp['v']
        elif k == 'fun':
            mul, add = sp['mul'], sp['add']
            out[name] = (lambda mul, add: (lambda x: x * mul + add))(mul, add)
        elif k == 'badexc':
            class BrokenStrError(Exception):
                """An application exception whose __str__ does not return a string."""
                def __str__(self):
                    return self.args[0]
            out[name] = BrokenStrError
        elif k == 'counter':
            def bump(what=None, _log=None):
                bump.log.append(what)
            bump.log = []
            out[name] = bump
        elif k == 'cm':
            d = sp['d']

            def mk(d):
                @contextlib.contextmanager
                def cm(n):
                    yield n + d
                return cm
            out[name] = mk(d)
    return out


def _conv_cfg(v):
    if isinstance(v, dict):
        return B({k: _conv_cfg(x) for k, x in v.items()})
    if isinstance(v, list):
        return [_conv_cfg(x) for x in v]
    return v


def _kind_of(v):
    if isinstance(v, bool):
        return 'bool'
    if isinstance(v, int):
        return 'int'
    if isinstance(v, str):
        return 'str'
    if isinstance(v, list) and len(v) >= 2 and all(isinstance(x, int) and not isinstance(x, bool) for x in v):
        return 'list'
    return None


def _code_text(ev):
    if ev['kind'] == 'eval':
        return '\n'.join(ev['lines'])
    if ev['kind'] == 'fstr_bare':
        return _fstr_literal(ev['body'])    # a Python f-string whose content is the given text
    q = '"' if "'" in ev['body'] else "'"
    return 'f' + q + ev['body'] + q


def _fstr_literal(body):
    """Some way of writing the Python f-string with content ``body`` as a literal (any that compiles)."""
    for q in ("'", '"', "'''", '"""'):
        if q not in body and not body.endswith(q[0]) and not body.endswith('\\'):
            text = 'f' + q + body + q
            try:
                compile(text, '<fstr>', 'eval')
                return text
            except SyntaxError:
                continue
    return 'f' + repr(body)


def reference_build(build):
    """Expected outcome of one build: ({key: native value}, None) or (None, set of exception type names)."""
    cfg = {k: _conv_cfg(v) for k, v in build['config']}
    syms = _mk_symbols(build['symbols'])
    values = {}
    top_values = {}      # only entries of the top-level mapping are visible as names / through ayns.cfg
    failed = {}
    user_data = B({})      # per evaluation
    # entries are evaluated on first use: one that reads another entry of the document waits for it
    pending = list(build['evals'])
    order = []
    while pending:
        ready = next((ev for ev in pending if not any(o is not ev and _is_top(o) and _mentions(ev, o['key']) for o in pending)), pending[0])
        pending.remove(ready)
        order.append(ready)
    for ev in order:
        ns = {}
        ns.update(cfg)
        ns.update(top_values)
        allkeys = {k: None for k in _top_level_keys(build)}
        ns['ayns'] = B({'cfg': B({**allkeys, **cfg, **top_values}), 'ctx': B({'user_data': user_data})})
        ns.update(syms)
        deps_failed = [k for k in failed if _mentions(ev, k)]
        if deps_failed:
            failed[ev['key']] = failed[deps_failed[0]]
            continue
        try:
            if ev['kind'] == 'eval':
                lines = ev['lines']
                exec(compile('\n'.join(lines[:-1]), '<ref>', 'exec'), ns)
                val = eval(compile(lines[-1].strip(), '<ref>', 'eval'), ns)
            else:
                val = eval(compile(_code_text(ev), '<ref>', 'eval'), ns)
            values[ev['key']] = val
            if ev['where'] == 'top' or ev['kind'] == 'fstr_implicit':
                top_values[ev['key']] = val
        except Exception as e:
            failed[ev['key']] = type(e).__name__
    # what the client does with the values after the build (all entries have been evaluated by then)
    for ev in build['evals']:
        if ev['key'] in values and 'call_after' in ev:
            try:
                values[ev['key']] = values[ev['key']](ev['call_after'])
            except Exception as e:      # raised in the client's own call, outside any build
                values[ev['key']] = ['raised-when-called', type(e).__name__]
        if ev['key'] in values and ev.get('iter_after'):
            values[ev['key']] = [list(x) if isinstance(x, tuple) else x for x in values[ev['key']]]
    if 'bump' in syms:
        values['__bump__'] = sorted(map(str, syms['bump'].log))     # how often the code of side-effecting entries ran
    if failed:
        return None, sorted(set(failed.values())), {k: observe.native(v) for k, v in values.items()}
    return {k: observe.native(v) for k, v in values.items()}, None, None


def _is_top(ev):
    return ev['where'] == 'top' or ev['kind'] == 'fstr_implicit'


def _top_level_keys(build):
    """Keys of the top-level mapping of the build's document, in document order."""
    keys = [k for k, _ in build['config']]
    if build.get('unsafe_entry'):
        keys.append('cunsafe')
    nested_map = nested_list = False
    for ev in build['evals']:
        if ev['where'] == 'top' or ev['kind'] == 'fstr_implicit':
            keys.append(ev['key'])
        elif ev['where'] == 'nested_map':
            nested_map = True
        else:
            nested_list = True
    if nested_map:
        keys.append('box')
    if nested_list:
        keys.append('seq')
    return keys


def _mentions(ev, key):
    import re
    text = _code_text(ev)
    return re.search(r'\b' + re.escape(key) + r'\b', text) is not None


# ---------------------------------------------------------------------------------------------
# generation

def _gen_env(r, variant, flags):
    """Config entries and symbols of one build; ``variant`` shifts the values so that builds of a history differ."""
    cfg = [['ca', 3 + variant], ['cb', 7 * (variant + 1)], ['cs', 'txt%d' % variant], ['cflag', variant % 2 == 0],
           ['cl', [1 + variant, 2, 3 + 2 * variant]], ['cm', {'x': 5 + variant, 'y': [4, 5]}], ['cz', 0],
           ['_cu', 11 + variant], ['__cv', 2 * variant + 1]]
    if flags['max'] and (not flags['vary'] or r.random() < 0.5):
        cfg.append(['max', 40 + variant])            # shadows a builtin - in some builds of the history only
    if flags['shared']:
        cfg.append(['shared', 100 + variant])
    if flags['extra'] and (not flags['vary'] or r.random() < 0.5):
        cfg.append(['extra', 900 + variant])         # programs read it: NameError in the builds that lack it
    r.shuffle(cfg)
    syms = {'bump': {'k': 'counter'}, 'BrokenStr': {'k': 'badexc'}, '__dsym': {'k': 'val', 'v': 70 + variant}, 's1': {'k': 'val', 'v': 10 * (variant + 1)}, 'scale': {'k': 'fun', 'mul': 2 + variant, 'add': variant},
            'ctxm': {'k': 'cm', 'd': variant}}
    if flags['shared'] and r.random() < 0.6:
        syms['shared'] = {'k': 'val', 'v': 1000 + variant}     # a symbol shadows the config entry of the same name
    if r.random() < 0.2:
        syms['ca'] = {'k': 'val', 'v': 500 + variant}
    env = {'__dsym': 'int', '_cu': 'int', '__cv': 'int', 'ca': 'int', 'cb': 'int', 'cs': 'str', 'cflag': 'bool', 'cl': 'list', 'cm': 'map', 'cz': 'int', 's1': 'int', 'scale': 'fun1', 'ctxm': 'cm'}
    for k, v in cfg:
        if k in ('max', 'shared', 'extra'):
            env[k] = 'int'
    if flags['extra']:
        env['extra'] = 'int'
    if flags['max']:
        env['max'] = 'int'
    return cfg, syms, env


def _gen_evals(r, env, n):
    evals = []
    env = dict(env)
    for i in range(n):
        kind = r.choice(['eval', 'eval', 'eval', 'fstr', 'fstr_implicit', 'fstr_bare'])
        g = ProgGen(r, env, p_error=r.choice([0.0, 0.1, 0.3]))
        key = f'e{i}'
        if kind == 'eval':
            if i == 0 and r.random() < 0.08:      # (one such entry per build: what it sees depends on when it runs)
                # the scratch area of the evaluation context: fresh for every evaluation, whatever the context object went through before
                lines = ["ayns.ctx.user_data.setdefault('log', []).append(ca)", "[list(ayns.ctx.user_data['log']), sorted(ayns.ctx.user_data)]"]
                g.features.add('context_user_data')
            elif r.random() < 0.1:
                lines = [r.choice(['ayns.cfg.ca + 1', "ayns.cfg.cm['x'] * 2", 'ayns.cfg.cl[0] + s1', 'len(ayns.cfg) + ca',
                                   "[('cm' in ayns.cfg), ('nonexistent' in ayns.cfg), bool(ayns.cfg)]", 'sorted(str(k_) for k_ in ayns.cfg)'])]
            else:
                lines = g.program(max_stmts=r.choice([0, 1, 2, 4, 6]))
                if r.random() < 0.03:
                    # an application exception that cannot even be printed: it is the cause all the same
                    lines = lines[:-1] + r.choice([['if ca:', '    raise BrokenStr(404)'], ['def chk_(v_):', '    raise BrokenStr(v_)', 'chk_(cb)']]) + [lines[-1]]
                    g.features.add('exception_with_broken_str')
                if r.random() < 0.02:
                    # user code that recurses without end: a RecursionError is a user exception like any other
                    lines = ['def rr_(n_):', '    return rr_(n_ + 1) + ca', f'[{lines[-1]}, rr_(0)]']
                    g.features.add('unbounded_recursion')
                if r.random() < 0.05:
                    # a string literal holding a character some text APIs treat as a line boundary (Python does not, inside a literal)
                    ch = r.choice(['\x0c', '\x1c', '\x1d', '\x1e', '\x85', '\u2028', '\u2029', '\x0b'])
                    lines = [f"sep_ = 'x{ch}y'"] + lines[:-1] + [f'[{lines[-1]}, sep_, len(sep_)]']
                    g.features.add('odd_line_boundary_char')
            ev = {'key': key, 'kind': 'eval', 'lines': lines, 'features': sorted(g.features)}
            stateful = 'context_user_data' in g.features      # reads state other entries write: when it runs matters, keep it in the build
            if not stateful and r.random() < 0.06:
                # the value is a one-shot iterator: it is the client who consumes it, after the build
                ev['lines'] = lines[:-1] + [r.choice(['(x_ * 2 for x_ in cl)', 'iter(cl)', 'zip(cl, cl)', 'map(scale, cl)', 'filter(None, cl)', 'reversed(cl)', 'enumerate(cl)'])]
                ev['iter_after'] = True
                ev['features'] = sorted(set(ev['features']) | {'iterator_value'})
            if not stateful and 'iter_after' not in ev and r.random() < 0.12 and len(lines[-1]) < 300:
                # the value is a function that reads names only when it is called - which the client does after the build
                funs = [n for n, k in g.locals.items() if k == 'fun1']
                if funs and r.random() < 0.5:
                    ev['lines'] = lines[:-1] + [r.choice(funs)]
                else:
                    ev['lines'] = lines[:-1] + [f'lambda z_: [z_, {lines[-1]}]']
                ev['call_after'] = r.randrange(1, 5)
                ev['features'] = sorted(set(ev['features']) | {'callable_value'})
        else:
            body = g.fstring()
            if kind == 'fstr_bare' and r.random() < 0.5:
                body += r.choice([' "quoted"', " it's", ' "a" and \'b\'', ' {cm["x"]}', " {cm['x']}"])
            if kind in ('fstr', 'fstr_bare') and r.random() < 0.05:
                body += ' ' + r.choice(['\x0c', '\x1c', '\x85', '\u2028', '\u2029']) + '|'
                g.features.add('odd_line_boundary_char')
            if kind == 'fstr_implicit' and (': ' in body or ' #' in body or body.endswith(':')):
                kind = 'fstr'    # not expressible as a plain YAML scalar
            ev = {'key': key, 'kind': kind, 'body': body, 'features': sorted(g.features)}
        ev['where'] = r.choice(['top', 'top', 'top', 'nested_map', 'nested_list'])
        evals.append(ev)
    return evals


def generate(r, tier, index):
    n_builds = r.choice([1, 2, 2, 3, 4])
    n_evals = r.randrange(1, 4)
    flags = {'max': r.random() < 0.2, 'shared': r.random() < 0.3, 'extra': r.random() < 0.3, 'vary': r.random() < 0.6}
    cfg0, syms0, env0 = _gen_env(r, 0, flags)
    base_evals = _gen_evals(r, env0, n_evals)
    # kinds of eval results (for dependent programs): compute natively, then let a later node read an earlier one
    b0 = {'config': cfg0, 'symbols': syms0, 'evals': base_evals}
    vals, failed, partial = reference_build(b0)
    known = vals if vals is not None else partial
    if len(base_evals) >= 2 and r.random() < 0.6:
        first = base_evals[0]
        if first['where'] == 'top' and known and first['key'] in known and 'call_after' not in first:
            kd = {'int': 'int', 'str': 'str', 'bool': 'bool'}.get(known[first['key']][0]) if isinstance(known[first['key']], list) else None
            if kd:
                env1 = dict(env0)
                env1[first['key']] = kd
                g = ProgGen(r, env1, p_error=0.05)
                last = base_evals[-1]
                if last['kind'] == 'eval' and 'call_after' not in last:
                    atom = first['key']
                    last['lines'][-1] = '[' + last['lines'][-1] + ', ' + (atom if kd != 'str' else f'len({atom})') + ']'
    if r.random() < 0.12:
        # an entry evaluated for its side effect (value None), read more than once by other entries - before and after it
        target = {'key': 'eb', 'kind': 'eval', 'lines': r.choice([["bump('eb')"], ["bump(ca)", "None"], ["x_ = [bump(cs)]", "x_[0]"]]), 'features': ['side_effect_once'], 'where': 'top'}
        reader = {'key': 'er', 'kind': 'eval', 'lines': [r.choice(['[eb, eb, ca]', '[eb is None, eb, cb]', '(eb, eb, eb, 1)[-1]'])], 'features': ['side_effect_once'], 'where': r.choice(['top', 'nested_map'])}
        reader2 = {'key': 'es', 'kind': 'eval', 'lines': ['[eb, cb]'], 'features': ['side_effect_once'], 'where': 'top'}
        base_evals = base_evals[:1] + r.choice([[reader, target], [target, reader], [reader, target, reader2]])
    builds = []
    for bi in range(n_builds):
        reuse = bi > 0 and r.random() < 0.75
        cfg, syms, env = _gen_env(r, bi, flags)
        evals = copy.deepcopy(base_evals) if (bi == 0 or reuse) else _gen_evals(r, env, r.randrange(1, 3))
        builds.append({'config': cfg, 'symbols': syms, 'evals': evals, 'unsafe_entry': r.random() < 0.3,
                       'filename': r.choice([None, '/w/conf/main.yaml', '/w/conf/main.yaml', f'/w/conf/other{bi}.yaml']),
                       'ctx': r.choice(['own', 'own', 'default']), 'via': r.choice(['text', 'file'])})
    par = n_builds >= 2 and r.random() < 0.3
    if not par:
        for bi in range(1, len(builds)):
            if builds[bi - 1]['ctx'] in ('own', 'reuse') and r.random() < 0.2:
                builds[bi]['ctx'] = 'reuse'                       # same EvalContext object as the previous build:
                builds[bi]['symbols'] = builds[bi - 1]['symbols']  # its symbols are the ones that count
    if not par and n_builds >= 2 and r.random() < 0.15:
        # a build that fails while one node is reading another entry by name (or while evaluating a dependency), followed by a
        # build with the same evaluation context whose config carries plain data marked !unsafe
        j = r.randrange(0, n_builds - 1)
        failing = r.choice(['cb // cz', 'undefined_name_ + 1', "cm['nokey']", 'int(cs)'])
        reader = r.choice(['[e0, ca]', 'e0 + 1', "f'{e0}'", '[x_ for x_ in [e0, e0]]'])
        builds[j]['evals'] = [{'key': 'e0', 'kind': 'eval', 'lines': [failing], 'features': ['failing_dependency'], 'where': 'top'},
                              {'key': 'e1', 'kind': 'eval', 'lines': [reader], 'features': ['failing_dependency'], 'where': r.choice(['top', 'nested_map'])}]
        if r.random() < 0.5:
            builds[j]['evals'].reverse()      # the reader comes first in the document
        builds[j]['ctx'] = 'own'
        builds[j + 1]['ctx'] = 'reuse'
        builds[j + 1]['symbols'] = builds[j]['symbols']
        builds[j + 1]['unsafe_entry'] = True
        for bi in range(1, n_builds):      # a reused context keeps the symbols it was created with
            if builds[bi]['ctx'] == 'reuse':
                if builds[bi - 1]['ctx'] == 'default':
                    builds[bi]['ctx'] = 'own'
                else:
                    builds[bi]['symbols'] = builds[bi - 1]['symbols']
    sc = {'builds': builds, 'par': par}
    if par:
        from .c20 import _sched_spec
        spec = _sched_spec(r)
        spec['focus'] = ['eval_node']
        sc['sched'] = spec
        for b in builds:
            b['ctx'] = 'own'
    return sc


# ---------------------------------------------------------------------------------------------
# execution

def _doc_text(build):
    lines = []
    nested_map = []
    nested_list = []
    for k, v in build['config']:
        lines.append(f'{emit.key_text(k)}: {json.dumps(v)}')
    if build.get('unsafe_entry'):
        lines.append('cunsafe: !unsafe 77')       # plain data marked unsafe, read by nobody: must not disturb anything
    for ev in build['evals']:
        if ev['kind'] == 'eval':
            val = '!eval ' + json.dumps('\n'.join(ev['lines']))
        elif ev['kind'] == 'fstr':
            val = '!fstr ' + json.dumps(_code_text(ev))
        elif ev['kind'] == 'fstr_bare':
            val = '!fstr ' + json.dumps(ev['body'])     # only the content: the node adds f'...' itself
        else:
            val = _code_text(ev)
        if ev['where'] == 'top' or ev['kind'] == 'fstr_implicit':
            lines.append(f'{ev["key"]}: {val}')
        elif ev['where'] == 'nested_map':
            nested_map.append(f'{ev["key"]}: {val}')
        else:
            nested_list.append(val)
    if nested_map:
        lines.append('box: {' + ', '.join(nested_map) + '}')
    if nested_list:
        lines.append('seq: [' + ', '.join(nested_list) + ']')
    return '\n'.join(lines) + '\n'


def _locate(cfg, build, ev):
    if ev['where'] == 'top' or ev['kind'] == 'fstr_implicit':
        return cfg[ev['key']]
    if ev['where'] == 'nested_map':
        return cfg['box'][ev['key']]
    idx = [e for e in build['evals'] if e['where'] == 'nested_list' and e['kind'] != 'fstr_implicit'].index(ev)
    return cfg['seq'][idx]


_PREV_CTX = []


def _do_build(build, fs, rec, unique=None):
    from awesomeyaml import Builder, Config, EvalContext, errors
    text = _doc_text(build)
    syms = _mk_symbols(build['symbols'])
    try:
        b = Builder()
        if build['via'] == 'file' and build['filename']:
            # concurrent builds must not overwrite each other's file on the shared simulated disk
            fname = build['filename'] if unique is None else build['filename'].replace('.yaml', f'.build{unique}.yaml')
            fs.files[fname] = text
            rec['fname_used'] = fname
            b.add_source(fname, raw_yaml=False)
        else:
            rec['fname_used'] = build['filename']
            b.add_source(text, raw_yaml=True, filename=build['filename'])
        root = b.build()
        active = syms
        if build['ctx'] == 'reuse' and _PREV_CTX:
            active = _PREV_CTX[1]
        n0 = len(active['bump'].log) if 'bump' in active else 0
        if build['ctx'] == 'default':
            EvalContext.set_default_eval_symbols(syms)
            cfg = Config(root)
        elif build['ctx'] == 'reuse' and _PREV_CTX:
            cfg = Config(root, eval_ctx=_PREV_CTX[0])      # the context (and its symbols) of the previous build
        else:
            EvalContext.set_default_eval_symbols({})    # process-wide defaults are configuration: this client uses none
            ctx_obj = EvalContext(syms)
            _PREV_CTX[:] = [ctx_obj, syms]
            cfg = Config(root, eval_ctx=ctx_obj)
        rec['status'] = 'ok'
        vals = {}
        rec['code_files'] = {}
        for ev in build['evals']:
            v = _locate(cfg, build, ev)
            if 'call_after' in ev:
                rec['code_files'][ev['key']] = getattr(getattr(v, '__code__', None), 'co_filename', None)    # where the function says it was written
                try:
                    v = v(ev['call_after'])    # after the build: the function resolves its free names now
                except Exception as e:
                    v = ['raised-when-called', type(e).__name__]
            if ev.get('iter_after'):
                v = [list(x) if isinstance(x, tuple) else x for x in v]      # the client consumes the iterator now
            vals[ev['key']] = observe.native(v)
        if 'bump' in active:
            vals['__bump__'] = observe.native(sorted(map(str, active['bump'].log[n0:])))
        rec['values'] = vals
    except Exception as e:
        rec['status'] = 'error'
        rec['exc'] = {'type': type(e).__name__, 'chain': observe.cause_chain(e), 'msg': observe.norm_text(e)[-500:],
                      'is_eval_error': isinstance(e, errors.EvalError), 'all_types': _all_types(e)}


def _all_types(e):
    out, seen, stack = [], set(), [e]
    while stack:
        x = stack.pop()
        if x is None or id(x) in seen:
            continue
        seen.add(id(x))
        out.append(type(x).__name__)
        stack.append(x.__cause__)
        stack.append(x.__context__)
    return out


def _run(sc):
    fs = simfs.SimFS({}, cwd='/w').install()
    recorder.install()
    builds = sc['builds']
    out = [dict(index=i) for i in range(len(builds))]
    if sc.get('par'):
        groups = [list(range(0, len(builds), 2)), list(range(1, len(builds), 2))]
    else:
        groups = [list(range(len(builds)))]

    def client(idxs):
        def run():
            for i in idxs:
                core.journal({'build_start': i})
                sched.begin_op(f'build{i}', 3_000_000)
                try:
                    _do_build(builds[i], fs, out[i], unique=(i if sc.get('par') else None))
                except sched.SimTimeout:
                    out[i]['status'] = 'timeout'
                sched.end_op()
        return run

    sch = sched.Scheduler(sc.get('sched') or {'policy': 'serial'})
    sch.run([client(g) for g in groups if g])
    return {'outs': out, 'switches': len(sch.switches), 'lines': sum(t.lines for t in sch.threads), 'idig': sch.interleaving_digest(),
            'overlaps': sch.overlaps, 'explicit': sch.explicit_spec()}


def _reference(sc):
    out = []
    for b in sc['builds']:
        vals, failed, _ = reference_build(b)
        out.append({'values': vals, 'failed': failed})
    return out


def execute(sc):
    res = core.ok_result()
    st = res['stats']
    ref = core.fork_call(_reference, (sc,), timeout=30)
    if ref['status'] != 'ok':
        res['harness'] = f'reference: {ref["status"]} {ref.get("error", "")}'
        return res
    ref = ref['value']
    c = core.fork_call(_run, (sc,), timeout=60)
    pr = st.setdefault('probes', {})
    oc = st.setdefault('outcomes', {})
    fl = st.setdefault('faults', {})

    def count(d, k, n=1):
        d[k] = d.get(k, 0) + n

    st['runs'] = 1
    if c['status'] == 'crash':
        started = [j['build_start'] for j in c['journal'] if 'build_start' in j]
        count(fl, 'interpreter_crash')
        res['violations'].append(core.violation('eval.crash', f'the interpreter died with signal {c["signal"]} while running build #{started[-1] if started else "?"} '
                                                f'of the history: {_doc_text(sc["builds"][started[-1]]) if started else ""}'[:1500], signal=c['signal']))
        return res
    if c['status'] != 'ok':
        res['harness'] = f'{c["status"]}: {c.get("error", "")}'
        return res
    v = c['value']
    st['lines'] = v['lines']
    st['switches'] = v['switches']
    st['overlaps'] = v['overlaps']
    seen_code = {}
    nontrivial = False
    for i, (b, got, exp) in enumerate(zip(sc['builds'], v['outs'], ref)):
        key_code = tuple((ev['where'], ev['key'], _code_text(ev)) for ev in b['evals'])
        later = any(kc in seen_code for kc in key_code)
        for kc in key_code:
            seen_code[kc] = i
        if later:
            nontrivial = True
            count(pr, 'build_reusing_path_and_code')
        for ev in b['evals']:
            for f in ev.get('features', []):
                count(pr, 'program:' + f)
            count(pr, 'node:' + ev['kind'])
        if b['filename'] is None:
            count(pr, 'no_file_name')
        hist = 'later' if later else 'first'
        mode = 'par' if sc.get('par') else 'seq'
        if got.get('status') == 'timeout':
            res['violations'].append(core.violation('liveness.step_budget', f'build #{i} exceeded the step budget'))
            break
        if exp['failed']:
            count(fl, 'user_code_raises')
            count(oc, 'build:' + got['status'] + ':ref_error')
            if got['status'] == 'ok':
                res['violations'].append(core.violation('eval.error_expected', f'build #{i}: Python raises {exp["failed"]} for the code but the build returned {got["values"]!r}\n{_doc_text(b)}'[:1500], history=hist, mode=mode))
                break
            if not got['exc']['is_eval_error']:
                res['violations'].append(core.violation('eval.error_kind', f'build #{i}: user-code exception surfaced as {got["exc"]["type"]} instead of EvalError: {got["exc"]["msg"]}', type=got['exc']['type']))
                break
            if not any(t in got['exc']['chain'] for t in exp['failed']):
                res['violations'].append(core.violation('eval.error_cause', f'build #{i}: EvalError does not carry the original cause: expected one of {exp["failed"]} in the cause chain, got {got["exc"]["chain"]}; {got["exc"]["msg"]}\n{_doc_text(b)}'[:1500], history=hist, mode=mode))
                break
        else:
            count(oc, 'build:' + got['status'] + ':ref_ok')
            if got['status'] != 'ok':
                res['violations'].append(core.violation('eval.unexpected_error', f'build #{i}: Python evaluates the code fine ({exp["values"]!r}) but the build failed: {got["exc"]["type"]} chain={got["exc"]["all_types"]}: {got["exc"]["msg"]}\n{_doc_text(b)}'[:1800], type=got['exc']['all_types'][-1], history=hist, mode=mode))
                break
            others = {o.get('fname_used') or '<string>' for o in v['outs']} - {got.get('fname_used') or '<string>'}
            stale = [(k, f) for k, f in (got.get('code_files') or {}).items() if f in others]
            if stale:
                count(pr, 'function_code_file_checked')
                res['violations'].append(core.violation('eval.value', f'build #{i} ({hist} in history, {mode}): the function defined by node {stale[0][0]} (source file {got.get("fname_used")!r}) says it was written in {stale[0][1]!r}, '
                                                        f'the source of another build of this process\n{_doc_text(b)}'[:1800], kind='code_file', history=hist, mode=mode))
                break
            diff = [k for k in exp['values'] if got['values'].get(k) != exp['values'][k]]
            if diff:
                k = diff[0]
                ev = next((e for e in b['evals'] if e['key'] == k), {'kind': 'side_effect_log'})
                res['violations'].append(core.violation('eval.value', f'build #{i} ({hist} in history, {mode}): node {k} gives {got["values"].get(k)!r}, Python gives {exp["values"][k]!r}\n{_doc_text(b)}'[:1800], kind=ev['kind'], history=hist, mode=mode))
                break
    if v['switches'] > 2:
        nontrivial = True
    if any(len(ev.get('lines', [])) > 1 for b in sc['builds'] for ev in b['evals']):
        nontrivial = True
    if nontrivial:
        res['keys'].append(core.digest([sc['builds'], v['idig']]))
    if res['violations']:
        sc['explicit_sched'] = v['explicit']
    b0 = sc['builds'][0]
    res['sample'] = {'n_builds': len(sc['builds']), 'parallel_threads': bool(sc.get('par')), 'build0_document': _doc_text(b0), 'build0_symbols': b0['symbols'],
                     'build0_filename': b0['filename'], 'build0_reference': ref[0], 'build0_observed': v['outs'][0]}
    return res


def _stmt_groups(lines):
    """Indices of top-level statements: [(start, end)] over all but the last line."""
    groups = []
    i = 0
    n = len(lines) - 1
    while i < n:
        j = i + 1
        if lines[i].count("'''") == 1 or lines[i].count('"""') == 1:      # an open multi-line literal: up to its closing line
            q3 = "'''" if lines[i].count("'''") == 1 else '"""'
            while j < n and q3 not in lines[j]:
                j += 1
            j = min(n, j + 1)
        while j < n and (lines[j].startswith(' ') or lines[j].startswith('else') or lines[j].startswith('elif') or lines[j].startswith('except') or lines[j].startswith('finally')):
            j += 1
        groups.append((i, j))
        i = j
    return groups


def _normalise(c):
    """Keep a shrunk history meaningful: a build that reuses the previous build's context has that context's symbols."""
    bs = c['builds']
    for bi, b in enumerate(bs):
        if b['ctx'] == 'reuse':
            if bi == 0 or bs[bi - 1]['ctx'] == 'default':
                b['ctx'] = 'own'
            else:
                b['symbols'] = copy.deepcopy(bs[bi - 1]['symbols'])
    return c


def shrink(sc):
    nb = len(sc['builds'])
    if sc.get('par'):
        c = copy.deepcopy(sc)
        c['par'] = False
        c.pop('sched', None)
        yield c
    for i in range(nb - 1, -1, -1):
        if nb > 1:
            c = copy.deepcopy(sc)
            del c['builds'][i]
            yield _normalise(c)
    for bi, b in enumerate(sc['builds']):
        for ei in range(len(b['evals']) - 1, -1, -1):
            if len(b['evals']) > 1:
                c = copy.deepcopy(sc)
                del c['builds'][bi]['evals'][ei]
                yield c
    # drop statements - in every build that carries the same program, to keep "same path, same code"
    for bi, b in enumerate(sc['builds']):
        for ei, ev in enumerate(b['evals']):
            if ev['kind'] != 'eval':
                continue
            for (a, z) in reversed(_stmt_groups(ev['lines'])):
                c = copy.deepcopy(sc)
                old = ev['lines']
                new = old[:a] + old[z:]
                for b2 in c['builds']:
                    for ev2 in b2['evals']:
                        if ev2.get('lines') == old:
                            ev2['lines'] = list(new)
                yield c
            if ev['where'] != 'top':
                c = copy.deepcopy(sc)
                c['builds'][bi]['evals'][ei]['where'] = 'top'
                yield c
    for bi, b in enumerate(sc['builds']):
        if b['filename'] is not None and b['via'] == 'file':
            c = copy.deepcopy(sc)
            c['builds'][bi]['via'] = 'text'
            yield c


def evidence_extra(stats):
    return {}


def reach_problems(stats, tier):
    pr = stats.get('probes', {})
    probs = []
    for need in ('build_reusing_path_and_code', 'no_file_name', 'node:eval', 'node:fstr', 'node:fstr_implicit', 'program:def', 'program:closure',
                 'program:comprehension', 'program:try', 'program:with', 'program:import', 'program:extended_arg', 'program:for', 'program:while',
                 'program:lambda', 'program:global_stmt', 'program:error', 'program:annotations', 'program:callable_value',
                 'program:multiline_literal'):
        if not pr.get(need):
            probs.append(f'probe {need} never fired')
    if not stats.get('faults', {}).get('user_code_raises'):
        probs.append('no program raised')
    return probs
