"""Address-free observations of awesomeyaml objects: node trees, evaluated configs, exceptions."""
import re
import pathlib
import functools

from . import core

_ADDR = re.compile(r'0x[0-9a-fA-F]+')


def norm_text(s):
    return _ADDR.sub('0x?', str(s))


def native(v, depth=0):
    """Evaluated config -> JSON-able value with Python types made explicit."""
    if depth > 60:
        return ['<deep>']
    if isinstance(v, dict):
        return {'__dict__': [[native(k, depth + 1), native(x, depth + 1)] for k, x in v.items()],
                '__t__': type(v).__name__}
    if isinstance(v, (list, tuple)):
        return {'__seq__': [native(x, depth + 1) for x in v], '__t__': type(v).__name__}
    if isinstance(v, functools.partial):
        return {'__partial__': getattr(v.func, '__name__', repr(v.func)), 'args': native(list(v.args), depth + 1),
                'kw': native(dict(v.keywords), depth + 1)}
    if isinstance(v, pathlib.PurePath):
        return {'__path__': str(v)}
    if v is None or isinstance(v, (bool, int, float, str)):
        return [type(v).__name__, v if not isinstance(v, float) else repr(v)]
    return [type(v).__name__, norm_text(repr(v))]


def plain(v):
    """Evaluated config -> plain Python data (dict/list/scalars), for direct comparisons."""
    if isinstance(v, dict):
        return {plain(k): plain(x) for k, x in v.items()}
    if isinstance(v, (list, tuple)):
        return [plain(x) for x in v]
    if isinstance(v, pathlib.PurePath):
        return str(v)
    return v


def node_record(path, node, registered_types=None):
    from awesomeyaml.nodes.scalar import ConfigScalar, ConfigScalarMeta
    from awesomeyaml.nodes.composed import ComposedNode
    kind = type(node).__name__
    rec = {
        'path': str(path),
        'kind': kind,
        'source_file': node.ayns.source_file,
        'safe': bool(node.ayns.safe),
        '_safe': getattr(node, '_safe', '<n/a>'),
        'implicit_safe': getattr(node, '_implicit_safe', '<n/a>'),
        'default_safe': getattr(node, '_default_safe', '<n/a>'),
        'priority': node.ayns.priority,
        'delete': bool(node.ayns.delete),
        'explicit_delete': node.ayns.explicit_delete,
        'allow_new': bool(node.ayns.allow_new),
        'idx': node.ayns.idx,
        'metadata': sorted((str(k), norm_text(repr(v))) for k, v in node.ayns.metadata.items()),
    }
    t = type(node)
    if isinstance(t, ConfigScalarMeta) and hasattr(t, '_dyn_base'):
        base = ConfigScalarMeta._rev_scalar_types.get(t._dyn_base, t._dyn_base)
        # is this node's class (or the dynamic base it derives from) the one the registry returns?
        dyn = [c for c in t.__mro__ if c in ConfigScalarMeta._types.values()]
        rec['registered'] = bool(dyn) and ConfigScalarMeta._types.get(base) in t.__mro__
    if not isinstance(node, ComposedNode):
        try:
            rec['value'] = norm_text(repr(node._get_native_value())) if hasattr(node, '_get_native_value') else norm_text(repr(node.ayns.value))
        except Exception as e:  # e.g. RequiredNode
            rec['value'] = f'<{type(e).__name__}>'
    else:
        rec['n_children'] = len(node._children)
        f = getattr(node, '_func', None)
        if f is not None:
            rec['func'] = f if isinstance(f, str) else getattr(f, '__name__', repr(f))
    return rec


def tree_records(root):
    """All nodes of a merged tree with the attributes C20/C06/C07 compare."""
    from awesomeyaml.nodes.composed import ComposedNode
    from awesomeyaml.nodes.node_path import NodePath
    out = [node_record(NodePath(), root)]
    if isinstance(root, ComposedNode):
        for path, node in root.ayns.nodes_with_paths():
            out.append(node_record(path, node))
    return out


def _ay_frames(tb):
    frames = []
    while tb is not None:
        fn = tb.tb_frame.f_code.co_filename
        if fn.startswith(core.PKG_PREFIX):
            frames.append(fn[len(core.PKG_PREFIX):] + ':' + tb.tb_frame.f_code.co_name)
        tb = tb.tb_next
    return frames


def _involves_recursion_limit(e):
    seen, stack = set(), [e]
    while stack:
        x = stack.pop()
        if x is None or id(x) in seen:
            continue
        seen.add(id(x))
        if isinstance(x, RecursionError):
            return True
        stack.append(x.__cause__)
        stack.append(x.__context__)
    return False


def exc_signature(e, with_frames=True, depth=0):
    """(type, normalised message, cause chain, context chain, awesomeyaml frames)."""
    if e is None:
        return None
    if depth == 0 and _involves_recursion_limit(e):
        # where the recursion limit trips - and which nested message formatting it interrupts - depends on the depth of
        # the caller's stack (harness frames and monitoring callbacks included): only the outcome is an observation
        return {'type': type(e).__name__, 'recursion_limit_involved': True}
    sig = {'type': type(e).__name__, 'msg': norm_text(e)}
    if with_frames:
        # where exactly the recursion limit trips depends on the depth of the caller's stack (harness frames included):
        # not an observation about the library
        sig['frames'] = _ay_frames(e.__traceback__) if not isinstance(e, RecursionError) else ['<recursion limit>']
    if depth < 8:
        if e.__cause__ is not None:
            sig['cause'] = exc_signature(e.__cause__, with_frames, depth + 1)
        if e.__context__ is not None and e.__context__ is not e.__cause__:
            sig['context'] = exc_signature(e.__context__, with_frames, depth + 1)
        sig['suppress'] = bool(e.__suppress_context__)
    return sig


def cause_types(e):
    out = []
    seen = set()
    while e is not None and id(e) not in seen:
        seen.add(id(e))
        out.append(type(e).__name__)
        e = e.__cause__ if e.__cause__ is not None else e.__context__
    return out


def cause_chain(e):
    """Type names along __cause__ only (what 'raise ... from' attached; an implicit context does not count)."""
    out = []
    seen = set()
    while e is not None and id(e) not in seen:
        seen.add(id(e))
        out.append(type(e).__name__)
        e = e.__cause__
    return out
