"""Seeded generators of config documents (as emit.py trees).

All randomness comes from the ``random.Random`` passed in; generated structures are plain JSON-able
data so that a scenario can be stored and replayed without regenerating it.
"""
from .emit import m, q, s, raw

KEYS = ['a', 'b', 'c', 'd', 'e', 'f']
SUBKEYS = ['x', 'y', 'z', 'a', 'k1', 7, 0, 1]


class DocGen:
    def __init__(self, rng, prefix='', tags=('!force', '!weak', '!del', '!merge'), p_tag=0.15,
                 max_depth=3, keys=None, p_container=0.4, scalars=None, unique=False, key_space=None):
        self.rng = rng
        self.prefix = prefix
        self.tags = list(tags)
        self.p_tag = p_tag
        self.max_depth = max_depth
        self.keys = list(keys or KEYS)
        self.key_space = key_space or SUBKEYS
        self.p_container = p_container
        self.n = 0
        self.unique = unique
        self.scalars = scalars

    def token(self):
        self.n += 1
        return f'{self.prefix}v{self.n}'

    def scalar_value(self):
        r = self.rng
        if self.unique:
            return self.token()
        c = r.randrange(8)
        if c == 0:
            return r.randrange(-3, 100)
        if c == 1:
            return r.choice([0.5, 2.5, -1.25, 3.0])
        if c == 2:
            return r.choice([True, False])
        if c == 3:
            return None
        if c == 4:
            return r.choice(['', 'x y', 'it''s', '12', 'true', 'null', '~', 'a: b', '- z', '#c'])
        return self.token()

    def tag(self, container):
        r = self.rng
        if not self.tags or r.random() >= self.p_tag:
            return None
        t = r.choice(self.tags)
        return t

    def scalar(self):
        v = self.scalar_value()
        t = self.tag(False)
        if t in ('!merge',):
            t = None
        node = s(v, t)
        if v is None and t:
            node['explicit_null'] = True   # "!force null", not the value-less "!force"
        return node

    def value(self, depth):
        r = self.rng
        if depth >= self.max_depth or r.random() >= self.p_container:
            return self.scalar()
        if r.random() < 0.5:
            n = r.randrange(0, 4)
            return q([self.value(depth + 1) for _ in range(n)], self.tag(True))
        return self.mapping(depth + 1)

    def mapping(self, depth=0, keys=None, min_keys=0, max_keys=4, tag=True):
        r = self.rng
        pool = list(keys if keys is not None else (self.keys if depth == 0 else self.key_space))
        n = r.randrange(min_keys, min(max_keys, len(pool)) + 1)
        ks = r.sample(pool, n)
        items = [[k, self.value(depth)] for k in ks]
        return m(items, self.tag(True) if (tag and depth > 0) else None)


def shrink_tree(node):
    """Structural shrinking candidates of one emit tree (each candidate is a new tree)."""
    k = node['k']
    if node.get('tag'):
        c = dict(node)
        c['tag'] = None
        yield c
    if k in ('map', 'seq'):
        items = node['items']
        for i in range(len(items)):
            c = dict(node)
            c['items'] = items[:i] + items[i + 1:]
            yield c
        for i, it in enumerate(items):
            child = it[1] if k == 'map' else it
            for sub in shrink_tree(child):
                c = dict(node)
                c['items'] = list(items)
                c['items'][i] = [it[0], sub] if k == 'map' else sub
                yield c
            if child['k'] in ('map', 'seq'):
                c = dict(node)
                c['items'] = list(items)
                rep = s(0)
                c['items'][i] = [it[0], rep] if k == 'map' else rep
                yield c
