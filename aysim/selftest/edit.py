"""Tiny helper for scripted source edits that preserves CRLF files (several awesomeyaml files use CRLF)."""
import os


def sub(path, old, new, count=1, root=None):
    p = os.path.join(root or os.environ.get('W', '.'), path)
    with open(p, newline='') as f:
        s = f.read()
    if '\r\n' in s:
        old = old.replace('\n', '\r\n')
        new = new.replace('\n', '\r\n')
    assert old in s, (path, old)
    s = s.replace(old, new, count)
    with open(p, 'w', newline='') as f:
        f.write(s)
