"""Determinism proof of the simulator itself.

usage: python -m aysim.selftest.determinism <ID> <n_runs> <workers> [master_seed]
Prints one line per run: "<index> <seed> <digest>", where the digest covers the generated scenario,
the violations, every counter of the run (traced line events, context switches, overlap probes,
faults fired, outcomes) and the non-triviality keys (which include the interleaving digests).
bin/selftest-determinism runs this in fresh interpreters at two worker counts and under another
PYTHONHASHSEED and diffs the outputs; any difference means the simulator's verdicts cannot be trusted.
"""
import sys
import json

from .. import core


def main():
    pid, n, workers = sys.argv[1], int(sys.argv[2]), int(sys.argv[3])
    master = int(sys.argv[4]) if len(sys.argv) > 4 else 0
    core.bootstrap()
    results, wall, capped = core.sweep(pid, 'quick', master, n, workers, 10_000, chunk=2)
    from .. import props
    prop = props.load(pid)
    for r in results:
        print(r['index'], r['seed'], core.run_digest(r, prop))
    print('#', pid, 'runs', len(results), 'wall', round(wall, 1), file=sys.stderr)


if __name__ == '__main__':
    main()
