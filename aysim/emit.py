"""YAML emitter for generated documents.

A document is a JSON-able tree:
  {'k': 'map', 'tag': T, 'items': [[key, node], ...]}
  {'k': 'seq', 'tag': T, 'items': [node, ...]}
  {'k': 's',   'tag': T, 'v': scalar}            int / float / bool / None / str
  {'k': 'raw', 'text': '...'}                    emitted verbatim (flow context)
T is None or a tag such as '!force', '!call:simrec.f_T3', '!metadata{{ "tok": "T1" }}'.
Flow style is used throughout, so a document is one line and every construct nests anywhere.
"""
import json
import re

_PLAIN_KEY = re.compile(r'^[A-Za-z][A-Za-z0-9_]*$')
_RESERVED = {'null', 'true', 'false', 'yes', 'no', 'on', 'off', 'y', 'n', 'Null', 'True', 'False', 'NULL', 'TRUE', 'FALSE',
             'Yes', 'No', 'On', 'Off', 'YES', 'NO', 'ON', 'OFF', 'Y', 'N'}


def m(items, tag=None):
    return {'k': 'map', 'tag': tag, 'items': [[k, v] for k, v in (items.items() if isinstance(items, dict) else items)]}


def q(items, tag=None):
    return {'k': 'seq', 'tag': tag, 'items': list(items)}


def s(v, tag=None):
    return {'k': 's', 'tag': tag, 'v': v}


def raw(text):
    return {'k': 'raw', 'text': text}


def scalar_text(v):
    if v is None:
        return 'null'
    if v is True:
        return 'true'
    if v is False:
        return 'false'
    if isinstance(v, int):
        return str(v)
    if isinstance(v, float):
        r = repr(v)
        if 'e' in r or 'inf' in r or 'nan' in r:
            return json.dumps(r)  # avoid YAML 1.1 float corner cases: emit as string
        return r
    return json.dumps(v, ensure_ascii=True)


def key_text(k):
    if isinstance(k, bool) or k is None:
        return scalar_text(k)
    if isinstance(k, (int, float)):
        return scalar_text(k)
    if _PLAIN_KEY.match(k) and k not in _RESERVED:
        return k
    return json.dumps(k, ensure_ascii=True)


def emit(node):
    k = node['k']
    if k == 'raw':
        return node['text']
    if k == 'empty':
        return ''          # an empty YAML document (yields no stage at all)
    if k == 'blk':
        # only reachable when a document is shown in flow form (messages, samples): same value as a quoted string
        return ((node['tag'] + ' ') if node.get('tag') else '') + json.dumps(node['text']) + ' # block scalar ' + node['style'].replace('|', 'literal').replace('>', 'folded')
    tag = node.get('tag')
    pre = (tag + ' ') if tag else ''
    if k == 's':
        if node['v'] is None and tag and not node.get('explicit_null'):
            return tag  # value-less tagged node, e.g. "!del" / "!required"
        return pre + scalar_text(node['v'])
    if k == 'map':
        return pre + '{' + ', '.join(key_text(kk) + ': ' + emit(v) for kk, v in node['items']) + '}'
    if k == 'seq':
        return pre + '[' + ', '.join(emit(v) for v in node['items']) + ']'
    raise ValueError(k)


def _needs_block(node):
    return node.get('k') == 'map' and any(v.get('k') == 'blk' for _, v in node['items'])


def emit_doc(node):
    if _needs_block(node):
        # block style at the top level: one "key: value" line per entry, block scalars (| / |- / > / >-) allowed as values
        lines = [node['tag']] if node.get('tag') else []
        for k, v in node['items']:
            if v.get('k') == 'blk':
                pre = (v['tag'] + ' ') if v.get('tag') else ''
                lines.append(f'{key_text(k)}: {pre}{v["style"]}')
                lines.extend('  ' + ln for ln in v['text'].split('\n'))
            else:
                lines.append(f'{key_text(k)}: {emit(v)}')
        return '\n'.join(lines) + '\n'
    return emit(node) + '\n'


def emit_stream(docs):
    return '---\n' + '---\n'.join(emit_doc(d) for d in docs)


def to_python(node):
    """The plain data a tag-free reading of the document denotes (tags erased)."""
    k = node['k']
    if k == 's':
        return node['v']
    if k == 'blk':
        return node['text']
    if k == 'map':
        return {kk: to_python(v) for kk, v in node['items']}
    if k == 'seq':
        return [to_python(v) for v in node['items']]
    raise ValueError('raw nodes have no plain reading')
