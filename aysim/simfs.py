"""In-memory file system, cwd and HOME behind the seams awesomeyaml already has.

The library reaches the OS only through the module-global names ``open`` (builder.py, yaml.py)
and ``os`` (builder.py, nodes/include.py, nodes/recurse.py, nodes/path.py, nodes/eval.py).
Rebinding those names in the forked run is all the "hooking" that is needed; nothing under
/repo is modified.  Every open/read/getcwd is a scheduler point and is written to the log.
"""
import io
import errno
import posixpath

from . import sched


class _SimPath:
    """``os.path`` as seen by the library: pure posixpath, except for ~ expansion."""

    def __init__(self, fs):
        self._fs = fs

    def expanduser(self, p):
        if isinstance(p, str) and (p == '~' or p.startswith('~/')):
            self._fs.log.append(['expanduser', p])
            return self._fs.home + p[1:]
        return p

    def __getattr__(self, name):
        return getattr(posixpath, name)


class SimOS:
    linesep = '\n'
    sep = '/'

    def __init__(self, fs):
        self._fs = fs
        self.path = _SimPath(fs)

    def getcwd(self):
        sched.external('getcwd')
        if getattr(self._fs, 'cwd_gone', False):
            # the working directory of the process was removed: getcwd() fails with ENOENT
            self._fs.fired('getcwd_ENOENT')
            self._fs.log.append(['getcwd', None, 'ENOENT'])
            raise FileNotFoundError(2, 'No such file or directory')
        self._fs.log.append(['getcwd', self._fs.cwd])
        return self._fs.cwd

    def fspath(self, p):
        return str(p)


class _SimFile(io.StringIO):
    def __init__(self, fs, path, content, read_fault=None):
        super().__init__(content if isinstance(content, str) else '')
        self._fs = fs
        self._path = path
        self._read_fault = read_fault
        self.name = path

    def read(self, *a):
        sched.external('read:' + self._path)
        if self._read_fault == 'EIO':
            self._fs.fired('EIO_read')
            self._fs.log.append(['read', self._path, 'EIO'])
            raise OSError(errno.EIO, 'Input/output error (simulated)', self._path)
        if self._read_fault == 'undecodable':
            self._fs.fired('undecodable')
            self._fs.log.append(['read', self._path, 'UnicodeDecodeError'])
            raise UnicodeDecodeError('utf-8', b'\xff\xfe', 0, 1, 'invalid start byte (simulated)')
        self._fs.log.append(['read', self._path, 'ok'])
        return super().read(*a)


_ERRNO = {
    'EACCES': (PermissionError, errno.EACCES, 'Permission denied'),
    'EISDIR': (IsADirectoryError, errno.EISDIR, 'Is a directory'),
    'ENAMETOOLONG': (OSError, errno.ENAMETOOLONG, 'File name too long'),
    'EINVAL': (OSError, errno.EINVAL, 'Invalid argument'),
    'ENOENT': (FileNotFoundError, errno.ENOENT, 'No such file or directory'),
    'EMFILE': (OSError, errno.EMFILE, 'Too many open files'),
    'ENOTDIR': (NotADirectoryError, errno.ENOTDIR, 'Not a directory'),
}


class SimFS:
    """files: {absolute path: text}; directories are implied by the files plus ``dirs``.

    faults: list of {'nth': k, 'kind': K} (k-th open call of the run, 0-based) or
    {'path': p, 'occ': j, 'kind': K} (j-th open of that path).  Kinds: the errno names above
    (raised by open), 'EIO_read' / 'undecodable' (raised by read), 'replace:<text>' (content
    differs on this open).
    """

    def __init__(self, files=None, cwd='/', home='/home/u', dirs=(), faults=()):
        self.files = dict(files or {})
        self.dirs = set(dirs)
        self.cwd = cwd
        self.home = home
        self.faults = [dict(f) for f in faults]
        self.log = []
        self.fired_counts = {}
        self.n_open = 0
        self.per_path = {}
        self._installed = []

    # -- bookkeeping
    def fired(self, kind):
        self.fired_counts[kind] = self.fired_counts.get(kind, 0) + 1

    def is_dir(self, p):
        if p in self.dirs or p == '/':
            return True
        pre = p.rstrip('/') + '/'
        return any(f.startswith(pre) for f in self.files)

    def resolve(self, path):
        if not posixpath.isabs(path):
            path = posixpath.join(self.cwd, path)
        return posixpath.normpath(path)

    def _fault_for(self, apath):
        for f in self.faults:
            if 'nth' in f and f['nth'] == self.n_open:
                return f
            if 'path' in f and f['path'] == apath and f.get('occ', 0) == self.per_path.get(apath, 0):
                return f
        return None

    # -- the seam
    def open(self, path, mode='r', *a, **kw):
        path = str(path)
        sched.external('open:' + path)
        apath = self.resolve(path)
        fault = self._fault_for(apath)
        self.n_open += 1
        self.per_path[apath] = self.per_path.get(apath, 0) + 1
        if 'w' in mode or 'a' in mode:
            self.log.append(['open-w', apath])
            return _SimWriter(self, apath, append=('a' in mode))
        if any(len(c) > 255 for c in apath.split('/')):
            self.log.append(['open', apath, 'ENAMETOOLONG'])
            raise OSError(errno.ENAMETOOLONG, 'File name too long', path)
        if fault is not None and fault['kind'] in _ERRNO:
            exc, no, text = _ERRNO[fault['kind']]
            self.fired(fault['kind'])
            self.log.append(['open', apath, fault['kind']])
            raise exc(no, text + ' (simulated)', path)
        if apath not in self.files:
            if self.is_dir(apath):
                self.log.append(['open', apath, 'EISDIR'])
                raise IsADirectoryError(errno.EISDIR, 'Is a directory', path)
            self.log.append(['open', apath, 'ENOENT'])
            raise FileNotFoundError(errno.ENOENT, 'No such file or directory', path)
        content = self.files[apath]
        read_fault = None
        if fault is not None:
            k = fault['kind']
            if k == 'EIO_read':
                read_fault = 'EIO'
            elif k == 'undecodable':
                read_fault = 'undecodable'
            elif k.startswith('replace:'):
                self.fired('replace')
                content = k[len('replace:'):]
        self.log.append(['open', apath, 'ok'])
        return _SimFile(self, apath, content, read_fault)

    def opened_ok(self):
        return [e[1] for e in self.log if e[0] == 'open' and e[2] == 'ok']

    # -- install / uninstall
    def install(self):
        import sys
        simos = SimOS(self)
        self.simos = simos
        targets = [('awesomeyaml.builder', 'open', self.open), ('awesomeyaml.yaml', 'open', self.open)]
        for m in ('awesomeyaml.builder', 'awesomeyaml.nodes.include', 'awesomeyaml.nodes.recurse',
                  'awesomeyaml.nodes.path', 'awesomeyaml.nodes.eval'):
            targets.append((m, 'os', simos))
        for mname, attr, val in targets:
            mod = sys.modules[mname]
            self._installed.append((mod, attr, mod.__dict__.get(attr, _MISSING)))
            setattr(mod, attr, val)
        return self

    def uninstall(self):
        for mod, attr, old in reversed(self._installed):
            if old is _MISSING:
                delattr(mod, attr)
            else:
                setattr(mod, attr, old)
        self._installed = []


_MISSING = object()


class _SimWriter(io.StringIO):
    def __init__(self, fs, path, append=False):
        super().__init__()
        self._fs = fs
        self._path = path
        if append and path in fs.files:
            self.write(fs.files[path])

    def close(self):
        if not self.closed:
            self._fs.files[self._path] = self.getvalue()
        super().close()
